#!/usr/bin/env python3
"""usage: tools/seeded_refresh.py [-j N] [--all-checks] <seeded dir name>... | --all
Re-runs the quick check of the property each seeded change was written against
(and, if it stays silent or with --all-checks, every other quick check) through
tools/seedrun.sh (scratch worktree; /repo and /verif/evidence untouched) and
rewrites own_check_fired / checks_that_fired / first_violation_lines /
final_run in its meta.json."""
import json, os, subprocess, sys, time, glob
HERE = os.path.dirname(os.path.dirname(os.path.abspath(__file__)))  # the tree this script lives in (a vp-run snapshot or /verif)
from concurrent.futures import ThreadPoolExecutor

ALL = ['C%02d' % i for i in range(1, 21)]
args = sys.argv[1:]
jobs = 2
allchecks = False
if args and args[0] == '-j':
    jobs = int(args[1]); args = args[2:]
if args and args[0] == '--all-checks':
    allchecks = True; args = args[1:]
if args == ['--all']:
    args = [os.path.basename(d) for d in sorted(glob.glob('/verif/seeded/C*-*'))]

slots = list(range(jobs))

def run(slot, patch, ids):
    out = subprocess.run([HERE + '/tools/seedrun.sh', '-s', 'r%d' % slot, patch, 'quick'] + ids,
                         capture_output=True, text=True, timeout=7200).stdout
    fired = []
    lines = []
    for l in out.splitlines():
        if l.startswith('FIRED:'):
            fired = [x for x in l[6:].split() if x != 'none']
        elif l.startswith('VIOLATION'):
            lines.append(l.replace('/tmp/seedrun/r%d/root/' % slot, ''))
    return fired, lines, out

def one(name):
    slot = slots.pop()
    try:
        d = '/verif/seeded/' + name
        m = json.load(open(d + '/meta.json'))
        own = m['property']
        fired, lines, out = run(slot, d + '/patch.diff', [own])
        if 'BUILD-FAILED' in out or 'does not apply' in out:
            print(name, 'PROBLEM', out[-300:]); return
        if not fired or allchecks:
            f2, l2, _ = run(slot, d + '/patch.diff', [i for i in ALL if i != own])
            fired += f2; lines += l2
        m['own_check_fired'] = own in fired
        m['checks_that_fired'] = fired or ['none']
        m['first_violation_lines'] = [l[:300] for l in lines[:4]]
        m['final_run'] = time.strftime('%Y-%m-%dT%H:%M:%S')
        m['checks_run'] = "the property's own quick check (all others too if it stayed silent) at seed 1 against a scratch worktree of /repo HEAD with the patch applied (tools/seedrun.sh), harness as committed"
        json.dump(m, open(d + '/meta.json', 'w'), indent=1, ensure_ascii=False)
        print(name, 'own=%s' % m['own_check_fired'], ' '.join(fired) or 'none', flush=True)
    finally:
        slots.append(slot)

with ThreadPoolExecutor(jobs) as ex:
    list(ex.map(one, args))
for s in range(jobs):
    subprocess.run([HERE + '/tools/seedrun.sh', '-s', 'r%d' % s, '--clean'])
