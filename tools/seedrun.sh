#!/bin/sh
# usage: tools/seedrun.sh [-s slot] <patch.diff> <tier> <ids...>
# Runs checks against a seeded change WITHOUT touching /repo or /verif:
# a worktree of /repo HEAD under /tmp/seedrun/<slot>/wt with the patch applied,
# a copy of the harness whose path dependency points at it, VERIF_ROOT set to a
# scratch directory (evidence, replay) with /verif's known_findings.json.
# Prints the first VIOLATION lines of every check that fires and "FIRED: ids".
# tools/seedrun.sh -s slot --clean  removes the slot (worktree + build output).
set -u
SLOT=0
if [ "$1" = "-s" ]; then SLOT="$2"; shift 2; fi
ROOT="$(cd "$(dirname "$0")/.." && pwd)"
S=/tmp/seedrun/$SLOT
if [ "$1" = "--clean" ]; then
  git -C /repo worktree remove --force "$S/wt" 2>/dev/null
  rm -rf "$S"; git -C /repo worktree prune; exit 0
fi
PATCH="$1"; TIER="$2"; shift 2
case "$PATCH" in none|/*) ;; *) PATCH="$(pwd)/$PATCH" ;; esac
mkdir -p "$S/root"
if [ ! -d "$S/wt" ]; then
  git -C /repo worktree prune
  git -C /repo worktree add --detach -f "$S/wt" HEAD >/dev/null 2>&1 || { echo "cannot create worktree"; exit 2; }
fi
git -C "$S/wt" checkout -q --detach "$(git -C /repo rev-parse HEAD)" 2>/dev/null
git -C "$S/wt" checkout -q -- . ; git -C "$S/wt" clean -fdq -e target
if [ "$PATCH" != "none" ]; then
  git -C "$S/wt" apply "$PATCH" || { echo "patch does not apply: $PATCH"; exit 2; }
fi
mkdir -p "$S/harness"
rsync -a --delete --exclude target --exclude 'target-*' "$ROOT/harness/" "$S/harness/"
sed -i "s#path = \"/repo\"#path = \"$S/wt\"#" "$S/harness/Cargo.toml"
cp "$ROOT/known_findings.json" "$ROOT/properties.jsonl" "$S/root/" 2>/dev/null
export CARGO_NET_OFFLINE=true
if ! (cd "$S/harness" && CARGO_TARGET_DIR="$S/target" cargo build --offline --profile verif --quiet 2>"$S/build.log"); then
  echo "BUILD-FAILED"; tail -n 15 "$S/build.log"; exit 2
fi
FIRED=""
for id in "$@"; do
  OUT="$(VERIF_ROOT="$S/root" "$S/target/verif/vmon" check "$id" "$TIER" 2>&1)"; RC=$?
  if [ $RC -eq 1 ]; then
    FIRED="$FIRED $id"
    echo "$OUT" | grep -m2 "^VIOLATION" | cut -c1-300
  elif [ $RC -ne 0 ]; then
    echo "$id: exit $RC"; echo "$OUT" | grep -m3 -E "INCONCLUSIVE|error" | cut -c1-200
  fi
done
echo "FIRED:${FIRED:- none}"
