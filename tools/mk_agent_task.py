#!/usr/bin/env python3
"""usage: tools/mk_agent_task.py <round> <property id>...
Creates, for each property, a scratch git worktree of /repo HEAD under
/tmp/agents/<round>-<id>/wt and a TASK.md next to it holding ONLY the text of
the property and the rules for a seeded change (nothing about /verif's checks).
One-line descriptions of changes seeded in earlier rounds are listed as 'already
taken' so that new changes use other sites."""
import json, os, subprocess, sys, glob

rnd = sys.argv[1]
ids = sys.argv[2:]
props = {json.loads(l)['id']: json.loads(l) for l in open('/verif/properties.jsonl')}
head = subprocess.check_output(['git', '-C', '/repo', 'rev-parse', 'HEAD'], text=True).strip()
for pid in ids:
    p = props[pid]
    base = '/tmp/agents/%s-%s' % (rnd, pid)
    wt = base + '/wt'
    os.makedirs(base + '/out', exist_ok=True)
    if not os.path.isdir(wt):
        subprocess.check_call(['git', '-C', '/repo', 'worktree', 'add', '--detach', '-f', wt, head],
                              stdout=subprocess.DEVNULL, stderr=subprocess.DEVNULL)
    taken = []
    for d in sorted(glob.glob('/verif/seeded/%s-*' % pid)):
        try:
            m = json.load(open(d + '/meta.json'))
        except Exception:
            continue
        w = (m.get('what_changed') or '').replace('\n', ' ')
        taken.append('- ' + (w[:260] + ('...' if len(w) > 260 else '')))
    anchors = p.get('anchors', {})
    mech = '\n'.join('  - %s (%s)' % (m['name'], m['where']) for m in anchors.get('mechanism', []))
    task = f"""# Task: seed a realistic regression for one semantic property of rust-html2text

You work ONLY inside the git worktree `{wt}` (a checkout of the html2text crate:
Rust library rendering HTML to width-wrapped plain/annotated text; `src/lib.rs`,
`src/render/text_renderer.rs`, `src/css.rs`, `src/css/parser.rs`, `src/markup5ever_rcdom.rs`).
Do not touch `/repo` or `/verif` and do not read anything under `/verif`.
There is no network; build with `CARGO_NET_OFFLINE=true cargo ... --offline` and
`CARGO_TARGET_DIR={base}/target`.  Always wrap commands in `timeout` (a change may
make the code loop forever).

## The property (this is all you are given)

**{p['id']} - {p['title']}**

Statement: {p['statement']}

Quantifier: {p['quantifier']['text']}

Why the existing tests cannot settle it: {p['why_tests_cant']}

Code it is anchored in (line numbers approximate):
{mech}
Observed at: {'; '.join(anchors.get('observe_at', []))}

## What to produce

TWO independent source changes to the crate (each a separate patch against the
unmodified worktree), each of which:

1. still compiles with and without `--features css`;
2. still passes the existing test suite UNEDITED, both
   `timeout 900 cargo test --offline --lib` (107 tests) and
   `timeout 900 cargo test --offline --features css --lib` (146 tests);
3. breaks the property above for real inputs through the public API, but only
   when something specific happens: an unusual input shape, a particular
   width / option combination, a multi-step sequence of API calls, or two
   cooperating edits that each look fine alone.  Ordinary use must not expose it
   at once.  It should look like a plausible commit a maintainer could make
   (a refactoring, an optimisation, a 'simplification', a fix for something else
   with a side effect) - not sabotage, no special-casing of magic strings;
4. comes with a demonstration: an integration test file `demo.rs` (to be dropped
   into `tests/demo_<name>.rs`, using only the crate's public API; put
   `#![cfg(feature = "css")]` at the top only if it needs css) that PASSES on the
   unmodified worktree and FAILS with the change applied.  Verify both yourself.

The two changes must be at different code sites from each other and from these
changes that were already made in earlier rounds (do not repeat their idea):
{chr(10).join(taken) if taken else '- (none)'}

Prefer sites and triggers that a generic random HTML fuzzer would be unlikely to
hit: interactions (tables inside lists, options combined, wide / zero-width
characters, attribute edge values, reuse of a parsed tree, CSS origin mixes ...).

## Deliverables

For each change write a directory `{base}/out/<short_snake_case_name>/` with:
- `patch.diff`  (output of `git diff` in the worktree for that change alone; must
  apply with `git apply` to the unmodified worktree),
- `demo.rs`     (the demonstration test),
- `notes.md`    (what was changed and why it looks plausible; exactly what an input
  needs in order to manifest; which commands you ran and their results).

Leave the worktree clean (`git checkout -- . && rm -rf tests/demo_*`) when done.
Your final message: the names of the two directories and one line each on what
they need to manifest.
"""
    open(base + '/TASK.md', 'w').write(task)
    print(base + '/TASK.md')
