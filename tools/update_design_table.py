#!/usr/bin/env python3
"""Rewrites the seeded-change table of DESIGN.md (between the SEEDED_TABLE markers) from seeded/*/meta.json."""
import subprocess, re
t = subprocess.check_output(['python3', '/verif/tools/seeded_table.py'], text=True)
d = open('/verif/DESIGN.md').read()
d = re.sub(r'<!-- SEEDED_TABLE_BEGIN -->.*?<!-- SEEDED_TABLE_END -->',
           lambda m: '<!-- SEEDED_TABLE_BEGIN -->\n' + t + '<!-- SEEDED_TABLE_END -->', d, flags=re.S)
open('/verif/DESIGN.md', 'w').write(d)
