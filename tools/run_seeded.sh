#!/bin/sh
# usage: tools/run_seeded.sh <patch.diff> [tier] [ids...]
# Applies a seeded change to /repo, runs the given checks (default: all quick),
# prints which ones fire, and restores /repo.  Never commits anything.
set -u
PATCH="$1"; TIER="${2:-quick}"; shift; [ $# -gt 0 ] && shift
IDS="${*:-C01 C02 C03 C04 C05 C06 C07 C08 C09 C10 C11 C12 C13 C14 C15 C16 C17 C18 C19 C20}"
ROOT="$(cd "$(dirname "$0")/.." && pwd)"
if ! git -C /repo diff --quiet; then echo "/repo has uncommitted changes; refusing"; exit 2; fi
if ! git -C /repo apply --check "$PATCH" 2>/dev/null; then echo "patch does not apply: $PATCH"; exit 2; fi
git -C /repo apply "$PATCH"
trap 'git -C /repo checkout -- . ; ' EXIT INT TERM
FIRED=""
for id in $IDS; do
  OUT="$("$ROOT/bin/check" "$id" "$TIER" 2>&1)"; RC=$?
  if [ $RC -eq 1 ]; then
    FIRED="$FIRED $id"
    echo "$OUT" | grep -m2 "^VIOLATION" | cut -c1-260
  elif [ $RC -ne 0 ]; then
    echo "$id: exit $RC"; echo "$OUT" | grep -m3 -E "INCONCLUSIVE|error" | cut -c1-200
  fi
done
echo "FIRED:${FIRED:- none}"
