#!/bin/sh
# usage: tools/confirm_mutant.sh <worktree> <mutant-dir>
# Confirms in the scratch worktree that the change compiles, passes the existing
# suites (with and without css), and that the demonstration fails with the
# change and passes without it.  Prints CONFIRMED or the reason it is not.
WT="$1"; M="$2"; NAME="$(basename "$M")"
export CARGO_NET_OFFLINE=true CARGO_TARGET_DIR="${CONFIRM_TARGET:-$WT/target}"
cd "$WT" || exit 2
git checkout -q -- . ; rm -rf tests/demo_*.rs
css=""; grep -q 'feature = "css"' "$M/demo.rs" && css="--features css"
fail() { echo "NOT-CONFIRMED $NAME: $1"; git checkout -q -- .; rm -f tests/demo_$NAME.rs; rmdir tests 2>/dev/null; exit 1; }
git apply --check "$M/patch.diff" 2>/dev/null || fail "patch does not apply"
mkdir -p tests; cp "$M/demo.rs" tests/demo_$NAME.rs
# without the patch: demo must pass
timeout 900 cargo test --offline $css --test demo_$NAME >/tmp/confirm_$NAME.log 2>&1 || fail "demo fails WITHOUT the patch"
git apply "$M/patch.diff"
timeout 900 cargo test --offline --lib >/tmp/confirm_$NAME.log 2>&1 || fail "suite (no css) fails with the patch"
grep -q "107 passed" /tmp/confirm_$NAME.log || fail "suite (no css) count differs"
timeout 900 cargo test --offline --features css --lib >/tmp/confirm_$NAME.log 2>&1 || fail "suite (css) fails with the patch"
if timeout 900 cargo test --offline $css --test demo_$NAME >/tmp/confirm_$NAME.log 2>&1; then fail "demo PASSES with the patch"; fi
git checkout -q -- .; rm -f tests/demo_$NAME.rs; rmdir tests 2>/dev/null
echo "CONFIRMED $NAME"
