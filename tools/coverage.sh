#!/bin/sh
# usage: tools/coverage.sh [tier] [ids...]     (default: quick, all properties)
# Measures which lines of /repo/src the checks' workloads execute: builds the
# harness with -Cinstrument-coverage on the nightly toolchain in a scratch
# directory (/tmp/vcov), runs the given checks with VERIF_ROOT pointing at the
# scratch directory (so /verif/evidence is untouched), and prints per-file line
# coverage plus the list of uncovered source lines to /tmp/vcov/uncovered.txt.
# A diagnostic for extending generators, not a check.
set -u
TIER="${1:-quick}"; [ $# -gt 0 ] && shift
IDS="${*:-C01 C02 C03 C04 C05 C06 C07 C08 C09 C10 C11 C12 C13 C14 C15 C16 C17 C18 C19 C20}"
ROOT="$(cd "$(dirname "$0")/.." && pwd)"
S=/tmp/vcov; mkdir -p "$S/root" "$S/prof"; rm -f "$S"/prof/*.profraw
BINDIR="$(dirname "$(find "$HOME/.rustup/toolchains/nightly-x86_64-unknown-linux-gnu" -name llvm-cov | head -1)")"
cp "$ROOT/known_findings.json" "$S/root/"
export CARGO_NET_OFFLINE=true
(cd "$ROOT/harness" && LLVM_PROFILE_FILE="$S/prof/build-%p-%m.profraw" RUSTFLAGS="-Cinstrument-coverage" CARGO_TARGET_DIR="$S/target" \
   cargo +nightly build --offline --profile verif --quiet 2>"$S/build.log") || { echo "coverage build failed"; tail "$S/build.log"; exit 2; }
rm -f "$S"/prof/build-*.profraw
for id in $IDS; do
  LLVM_PROFILE_FILE="$S/prof/$id-%p-%m.profraw" VERIF_ROOT="$S/root" "$S/target/verif/vmon" check "$id" "$TIER" 2>&1 | tail -1
done
"$BINDIR/llvm-profdata" merge -sparse "$S"/prof/*.profraw -o "$S/all.profdata" || exit 2
"$BINDIR/llvm-cov" report "$S/target/verif/vmon" -instr-profile="$S/all.profdata" $(ls /repo/src/*.rs /repo/src/*/*.rs) 2>/dev/null | cut -c1-200
"$BINDIR/llvm-cov" show "$S/target/verif/vmon" -instr-profile="$S/all.profdata" $(ls /repo/src/*.rs /repo/src/*/*.rs) 2>/dev/null \
  | awk '/^\/repo\/src/ {file=$0} /^ +[0-9]+\| +0\|/ {print file " " $0}' > "$S/uncovered.txt"
echo "uncovered lines: $(wc -l < "$S/uncovered.txt") (list in $S/uncovered.txt)"
rm -f "$S"/prof/*.profraw
