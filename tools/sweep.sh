#!/bin/sh
# usage: tools/sweep.sh <tier> <seed>...   run every check at the given seeds, print non-silent ones
TIER="$1"; shift
for seed in "$@"; do
  for id in C01 C02 C03 C04 C05 C06 C07 C08 C09 C10 C11 C12 C13 C14 C15 C16 C17 C18 C19 C20; do
    VERIF_SEED=$seed /verif/harness/target/verif/vmon check $id $TIER 2>&1 | grep -E "VIOLATION|INCONCLUSIVE|verdict=" | grep -v "held-on-observed" | cut -c1-260 | sed "s/^/[seed $seed] /"
  done
  echo "[seed $seed] done $(date +%T)"
done
