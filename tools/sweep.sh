#!/bin/sh
# usage: tools/sweep.sh <tier> <seed>...   run every check at the given seeds, print non-silent ones
# Builds and runs in the tree the script lives in (works inside a `vp run` snapshot);
# evidence and replay files go to a scratch root, never to /verif/evidence.
TIER="$1"; shift
ROOT="$(cd "$(dirname "$0")/.." && pwd)"
"$ROOT/bin/check" --build || exit 2
SCR="${SWEEP_ROOT:-/tmp/sweep-$$}"; mkdir -p "$SCR"; cp "$ROOT/known_findings.json" "$SCR/"
IDS="${SWEEP_IDS:-C01 C02 C03 C04 C05 C06 C07 C08 C09 C10 C11 C12 C13 C14 C15 C16 C17 C18 C19 C20}"
for seed in "$@"; do
  for id in $IDS; do
    VERIF_ROOT="$SCR" VERIF_SEED=$seed "$ROOT/harness/target/verif/vmon" check $id $TIER 2>&1 | grep -E "VIOLATION|INCONCLUSIVE|verdict=" | grep -v "held-on-observed" | cut -c1-300 | sed "s/^/[seed $seed] /"
  done
  echo "[seed $seed] done $(date +%T)"
done
[ -z "${SWEEP_ROOT:-}" ] && rm -rf "$SCR"
