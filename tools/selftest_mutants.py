#!/usr/bin/env python3
"""Hand-made mutants of the mechanisms named in DESIGN.md §3 ("Mutants to confirm").

Each entry is (property, name, file, old, new): a textual replacement in a scratch
worktree of /repo.  The script applies one at a time, builds a scratch copy of the
harness against it and runs the property's own quick check; results go to
/verif/seeded/self/results.json and the diffs to /verif/seeded/self/<prop>-<name>.diff.
These are self-tests of the monitors (they are not required to pass the crate's own
suite); the independent sub-agent changes live in /verif/seeded/<prop>-<name>/.

usage: tools/selftest_mutants.py [PROP ...]      (needs /tmp/seedrun prepared: see DESIGN §6.4)
"""
import json, os, subprocess, sys

L = 'src/lib.rs'
T = 'src/render/text_renderer.rs'
C = 'src/css.rs'
P = 'src/css/parser.rs'

M = [
 # --- C01
 ('C11', 'width0_guard_dropped', L, '        if width == 0 {\n            return Err(Error::TooNarrow);\n        }\n', ''),
 ('C01', 'unwrap_on_too_narrow', L, 'renderer.new_sub_renderer(renderer.width_minus(2, inner_min)?)?;', 'renderer.new_sub_renderer(renderer.width_minus(2, inner_min).unwrap())?;'),
 ('C01', 'ol_start_plain_add', L, 'let max_number = start.saturating_add(num_items as i64).saturating_sub(1);\n            let prefix_width_min', 'let max_number = start + (num_items as i64) - 1;\n            let prefix_width_min'),
 # --- C02
 ('C02', 'width_minus_not_subtracting', T, 'let new_width = self.width.saturating_sub(prefix_len);', 'let new_width = self.width.saturating_sub(prefix_len.saturating_sub(1));'),
 ('C02', 'shrink_stops_one_early', L, '                if cur_width <= width {\n                    break;', '                if cur_width <= width + 1 {\n                    break;'),
 ('C02', 'stacked_colspan_again', L, 'cell.col_width = Some(if vertical {\n                    col_width\n                } else {', 'cell.col_width = Some(if false {\n                    col_width\n                } else {'),
 # --- C03
 ('C03', 'hard_wrap_drops_tail', T, '                } else if bpos < piece.s.len() {\n                    self.line.push(Str(TaggedString {\n                        s: piece.s[bpos..].into(),', '                } else if bpos + 1 < piece.s.len() {\n                    self.line.push(Str(TaggedString {\n                        s: piece.s[bpos..].into(),'),
 ('C03', 'skip_cell_width_one', L, '            if col_width > 0 {\n                // Side by side', '            if col_width > 1 {\n                // Side by side'),
 ('C03', 'img_alt_dropped_in_link', L, '            Text(ref t) | Img(_, ref t) => {\n                let len = t.trim().len();\n                len == 0', '            Text(ref t) | Img(_, ref t) => {\n                let len = t.trim().len();\n                len <= 1'),
 # --- C04
 ('C04', 'fit_test_strict', T, 'if space_needed <= space_in_line {', 'if space_needed < space_in_line {'),
 ('C04', 'space_reset_per_text_node', T, '        let mut tag = if self.pre_wrapped { wrap_tag } else { main_tag };\n        for c in text.chars() {', '        let mut tag = if self.pre_wrapped { wrap_tag } else { main_tag };\n        if !ws_mode.preserve_whitespace() && self.wordlen == 0 { self.wslen = 0; }\n        for c in text.chars() {'),
 ('C04', 'hard_wrap_lineleft_off_by_one', T, '                    self.force_flush_line();\n                    lineleft = self.width;', '                    self.force_flush_line();\n                    lineleft = self.width.max(2) - 1;'),
 # --- C05
 ('C05', 'join_below_shifted', T, 'prev_border.join_below(pos + w);', 'prev_border.join_below(pos + w + 1);'),
 ('C05', 'no_merge_from_above', T, '                    next_border.merge_from_above(line, pos);\n', ''),
 ('C05', 'last_column_not_padded', T, '                                    tline.pad_to(width, &self.ann_stack);', '                                    if width > 3 { tline.pad_to(width, &self.ann_stack); }'),
 ('C05', 'no_column_padding_bars', T, 'column_padding[col_no] = Some(line.to_vertical_lines_above());', 'column_padding[col_no] = None;'),
 # --- C06
 ('C06', 'shrink_ignores_min_width', L, 'width.saturating_sub(col_sizes[colno].min_width),\n                            width,', 'usize::MAX - colno,\n                            width,'),
 ('C06', 'colspan_gets_first_column_only', L, 'col_sizes[colno..colno + cell.colspan].iter().sum::<usize>()', 'col_sizes[colno..colno + 1].iter().sum::<usize>()'),
 ('C06', 'drop_last_cell_of_long_rows', L, '            .collect();\n        let style = computed.clone();\n        Some(RenderNode::new_styled(\n            RenderNodeInfo::TableRow(', '            .collect::<Vec<_>>();\n        let mut cells = cells;\n        if cells.len() > 4 { cells.pop(); }\n        let style = computed.clone();\n        Some(RenderNode::new_styled(\n            RenderNodeInfo::TableRow('),
 # --- C07
 ('C07', 'ol_width_from_first_number', L, '            let prefix_width = max(prefix_width_min, prefix_width_max);\n            let prefixn', '            let prefix_width = prefix_width_min;\n            let prefixn'),
 ('C07', 'ul_prefix_on_every_line', L, 'once(&prefix[..]).chain(repeat(&indent[..])),', 'repeat(&prefix[..]),'),
 ('C07', 'heading_prefix_first_line_only', L, '                renderer.append_subrender(sub_builder, repeat(&prefix[..]))?;\n                renderer.end_block();\n                pushed_style.unwind(renderer);\n                Ok(Some(None))\n            })\n        }\n        Div(children)', '                let blank = " ".repeat(prefix.len());\n                renderer.append_subrender(sub_builder, once(&prefix[..]).chain(repeat(&blank[..])))?;\n                renderer.end_block();\n                pushed_style.unwind(renderer);\n                Ok(Some(None))\n            })\n        }\n        Div(children)'),
 ('C07', 'ol_counter_skips_after_ten', L, 'i.set(i.get().saturating_add(1));', 'i.set(i.get().saturating_add(if i.get() == 10 { 2 } else { 1 }));'),
 # --- C08
 ('C08', 'footnote_number_off_by_one_in_tables', T, '            let footnote_num = self.links.len();', '            let footnote_num = self.links.len() - if self.subrender.len() > 2 { 1 } else { 0 };'),
 ('C08', 'footnotes_not_cleared_when_disabled', T, '            self.decorator.finalise(Vec::new())', '            self.decorator.finalise(links)'),
 # --- C09
 ('C09', 'end_code_no_pop', T, '        let s = self.decorator.decorate_code_end();\n        self.add_inline_text(&s)?;\n        self.ann_stack.pop();', '        let s = self.decorator.decorate_code_end();\n        self.add_inline_text(&s)?;'),
 ('C09', 'sub_renderer_no_stack_copy', T, '        result.ann_stack = self.ann_stack.clone();', '        if self.ann_stack.len() < 3 { result.ann_stack = self.ann_stack.clone(); }'),
 ('C09', 'merge_ignores_tags_for_short_pieces', T, '                if ts_prev.tag == ts.tag {', '                if ts_prev.tag == ts.tag || (ts.s.len() == 1 && ts.s != " ") {'),
 # --- C10
 ('C10', 'coloured_skips_empty_lines', L, '            for line in lines {\n                for ts in line.tagged_strings() {\n                    result.push_str(&colour_map(&ts.tag, &ts.s));\n                }\n                result.push(\'\\n\');', '            for line in lines {\n                if line.tagged_strings().next().is_none() { continue; }\n                for ts in line.tagged_strings() {\n                    result.push_str(&colour_map(&ts.tag, &ts.s));\n                }\n                result.push(\'\\n\');'),
 # (removed: a min_width floor applied on every route changes layout but is route-independent, so it does not break C10)
 # --- C11
 ('C11', 'hard_wrap_ignores_overflow_option', T, '                                if self.allow_overflow {\n                                    split_idx = c.len_utf8();', '                                if self.allow_overflow && self.width > 1 {\n                                    split_idx = c.len_utf8();'),
 ('C11', 'overflow_changes_min_width', T, '        Ok(new_width.max(min_width))', '        Ok(new_width.max(min_width + if self.options.allow_width_overflow { 1 } else { 0 }))'),
 # --- C12
 ('C12', 'tab_stop_from_line_len_only', T, 'let mut pos = self.line.len + self.wslen;\n                            let mut at_least_one_space = false;', 'let mut pos = self.line.len;\n                            let mut at_least_one_space = false;'),
 ('C12', 'last_column_ge', T, 'if (self.line.len + self.wslen + cwidth) > self.width {', 'if (self.line.len + self.wslen + cwidth) >= self.width {'),
 # --- C13
 ('C04', 'comment_breaks_word', L, '        Comment { .. } => Nothing,\n        Element {', '        Comment { .. } => Finished(RenderNode::new(Text(" ".into()))),\n        Element {'),
 ('C13', 'whitespace_kept_after_block_end', T, '            && self.at_block_end\n            && text.chars().all(char::is_whitespace)', '            && self.at_block_end\n            && text.chars().all(|c| c == \' \')'),
 # --- C14
 ('C14', 'trailing_fragments_dropped', T, '            self.pending_frags.extend(frags);', '            if frags.len() < 2 { self.pending_frags.extend(frags); }'),
 ('C14', 'marker_at_end_of_children', L, 'Some(node) => {\n                                Ok(Some(insert_child(fragnode, node, ChildPosition::Start)))', 'Some(node) => {\n                                Ok(Some(insert_child(fragnode, node, ChildPosition::End)))'),
 # --- C15
 ('C15', 'wrap_width_replaces_block_width', T, '            Some(ww) => ww.min(width),', '            Some(ww) => ww.min(width).max(1) + if ww == 7 { 1 } else { 0 },'),
 ('C15', 'pad_uses_wrong_width', T, '            tmp_line.pad_to(self.width, tag);', '            tmp_line.pad_to(self.width + if self.width == 9 { 1 } else { 0 }, tag);'),
 ('C15', 'borders_option_ignored_in_stacked', T, '            } else if self.options.draw_borders {\n                let border = BorderHoriz::new_type(', '            } else if true {\n                let border = BorderHoriz::new_type('),
 # --- C16
 ('C16', 'ul_indent_bytes_again', L, 'let indent = " ".repeat(prefix_len);', 'let indent = " ".repeat(prefix.len());'),
 ('C16', 'quote_prefix_bytes_again', L, 'let prefix_width = UnicodeWidthStr::width(prefix.as_str());\n            debug_assert!(size_estimate.prefix_size == prefix_width);', 'let prefix_width = prefix.len();'),
 # --- C17
 ('C17', 'semicolon_required_again', P, 'if token == Token::Semicolon || token == Token::CloseBrace {', 'if token == Token::Semicolon {'),
 ('C17', 'property_names_case_sensitive', P, "            '_' | 'a'..='z' | 'A'..='Z' => Ok((iter.as_str(), c.to_ascii_lowercase())),", "            '_' | 'a'..='z' | 'A'..='Z' => Ok((iter.as_str(), c)),"),
 ('C17', 'skip_statement_no_pop', P, '                if bra_stack.last() == Some(&tok) {\n                    bra_stack.pop();', '                if bra_stack.last() == Some(&tok) {\n                    if tok != Token::CloseSquare { bra_stack.pop(); }'),
 # --- C18
 ('C18', 'height_zero_alone_hides', C, '    if height_zero && overflow_hidden {', '    if height_zero {'),
 ('C18', 'style_attr_without_use_doc_css', C, '        #[cfg(feature = "css")]\n        if _use_doc_css {\n            // Now look for a style attribute', '        #[cfg(feature = "css")]\n        if true {\n            // Now look for a style attribute'),
 # --- C19
 ('C19', 'equal_specificity_first_wins', L, 'if theirs < mine || (theirs == mine && specificity < self.specificity) {', 'if theirs < mine || (theirs == mine && specificity <= self.specificity) {'),
 ('C19', 'important_origin_order_reversed', L, '                    (true, Author) => 4,\n                    (true, User) => 5,\n                    (true, Agent) => 6,', '                    (true, Author) => 6,\n                    (true, User) => 5,\n                    (true, Agent) => 4,'),
 ('C19', 'inline_not_above_ids', L, '        match self.inline.partial_cmp(&other.inline) {\n            Some(core::cmp::Ordering::Equal) => {}\n            ord => return ord,\n        }\n        match self.id.partial_cmp', '        match self.id.partial_cmp(&other.id) {\n            Some(core::cmp::Ordering::Equal) => {}\n            ord => return ord,\n        }\n        match self.inline.partial_cmp(&other.inline) {\n            Some(core::cmp::Ordering::Equal) => {}\n            ord => return ord,\n        }\n        match self.id.partial_cmp'),
 # --- C20
 ('C20', 'descendant_without_backtracking', C, 'Self::do_matches(&comps[1..], &parent) || Self::do_matches(comps, &parent)', 'if Self::do_matches(&comps[1..2], &parent) { Self::do_matches(&comps[1..], &parent) } else { Self::do_matches(comps, &parent) }'),
 ('C20', 'nth_n_nonnegative_dropped', C, '                    n >= 0 && Self::do_matches(&comps[1..], node)', '                    let _ = n; Self::do_matches(&comps[1..], node)'),
 ('C20', 'child_matches_any_ancestor', C, '                SelectorComponent::CombChild => {\n                    if let Some(parent) = node.get_parent() {\n                        Self::do_matches(&comps[1..], &parent)', '                SelectorComponent::CombChild => {\n                    if let Some(parent) = node.get_parent() {\n                        Self::do_matches(&comps[1..], &parent) || Self::do_matches(comps, &parent)'),
 ('C20', 'class_substring_match', C, '                                    if cls == class {', '                                    if cls.starts_with(class.as_str()) {'),
]

REPO = os.environ.get('SEEDROOT', '/tmp/seedrun') + '/repo'
OUT = '/verif/seeded/self'

def main():
    only = sys.argv[1:]
    os.makedirs(OUT, exist_ok=True)
    rp = os.path.join(OUT, 'results.json')
    results = json.load(open(rp)) if os.path.exists(rp) else {}
    for prop, name, f, old, new in M:
        key = f'{prop}-{name}'
        if only and prop not in only and key not in only:
            continue
        subprocess.run(['git', '-C', REPO, 'checkout', '-q', '--', '.'])
        path = os.path.join(REPO, f)
        s = open(path).read()
        if s.count(old) != 1:
            results[key] = {'status': 'site-not-found (%d matches)' % s.count(old)}
            print(key, results[key]['status'], flush=True)
            continue
        open(path, 'w').write(s.replace(old, new))
        diff = subprocess.run(['git', '-C', REPO, 'diff'], capture_output=True, text=True).stdout
        dp = os.path.join(OUT, key + '.diff')
        open(dp, 'w').write(diff)
        subprocess.run(['git', '-C', REPO, 'checkout', '-q', '--', '.'])
        r = subprocess.run([os.environ.get('SEEDROOT', '/tmp/seedrun') + '/run.sh', dp, prop], capture_output=True, text=True, errors='replace')
        lines = r.stdout.strip().splitlines()
        fired = [l for l in lines if l.startswith('FIRED:')]
        st = {'status': 'ran', 'fired': fired[-1][6:].split() if fired else ['?'],
              'violations': [l[:200] for l in lines if l.startswith('VIOLATION')][:3],
              'other': [l[:200] for l in lines if not l.startswith('VIOLATION') and not l.startswith('FIRED')][:3]}
        results[key] = st
        json.dump(results, open(rp, 'w'), indent=1, ensure_ascii=False)
        print(key, st['fired'], st['other'][:1], flush=True)

if __name__ == '__main__':
    main()
