#!/usr/bin/env python3
"""usage: tools/import_agent_out.py <round> <property id>...
Copies confirmed sub-agent deliveries /tmp/agents/<round>-<id>/out/<name>/ into
/verif/seeded/<id>-<name>/ (patch.diff, demo.rs, notes.md) and writes a
meta.json skeleton whose what_changed / needs_to_manifest are taken from the
sections of notes.md.  Only deliveries listed CONFIRMED in the round's
confirm.log (tools/confirm_mutant.sh) are imported."""
import json, os, re, shutil, sys, glob

rnd = sys.argv[1]
for pid in sys.argv[2:]:
    base = '/tmp/agents/%s-%s' % (rnd, pid)
    conf = open(base + '/confirm.log').read() if os.path.exists(base + '/confirm.log') else ''
    for d in sorted(glob.glob(base + '/out/*/')):
        name = os.path.basename(d.rstrip('/'))
        if ('CONFIRMED ' + name) not in conf or ('NOT-CONFIRMED ' + name) in conf:
            print('skip (not confirmed):', pid, name)
            continue
        dst = '/verif/seeded/%s-%s' % (pid, name)
        os.makedirs(dst, exist_ok=True)
        for f in ('patch.diff', 'demo.rs', 'notes.md'):
            shutil.copy(d + f, dst + '/' + f)
        notes = open(d + 'notes.md').read()
        secs = re.split(r'^##+\s*', notes, flags=re.M)
        def sec(*keys):
            for s in secs:
                head = s.split('\n', 1)[0].lower()
                if any(k in head for k in keys):
                    body = s.split('\n', 1)[1] if '\n' in s else ''
                    return re.sub(r'\s+', ' ', body).strip()[:1500]
            return ''
        meta = {
            'property': pid,
            'name': name,
            'round': rnd,
            'what_changed': sec('what was changed', 'what changed', 'change') or re.sub(r'\s+', ' ', notes)[:800],
            'needs_to_manifest': sec('needs to manifest', 'manifest', 'trigger'),
            'demo_cmd': 'cargo test --offline %s--test demo_%s' % ('--features css ' if 'feature = "css"' in open(d + 'demo.rs').read() else '', name),
            'confirmed': 'tools/confirm_mutant.sh in a scratch worktree: patch applies, both suites pass with it, demo passes without and fails with the patch',
            'own_check_fired': None,
            'checks_that_fired': [],
        }
        json.dump(meta, open(dst + '/meta.json', 'w'), indent=1, ensure_ascii=False)
        print('imported', dst)
