#!/usr/bin/env python3
import json,sys,glob
for f in sorted(glob.glob(sys.argv[1])):
    d=json.load(open(f))
    print("=====",d['property'],d['signature'],'occ',d['occurrences'],'idx',d['idx'])
    print(d['what'][:400])
    w=d['witness']
    for k,v in w.items():
        s=v if isinstance(v,str) else json.dumps(v,ensure_ascii=False)
        print('  %s: %s'%(k, s[:int(sys.argv[2]) if len(sys.argv)>2 else 600]))
