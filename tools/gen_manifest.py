#!/usr/bin/env python3
"""Regenerates /verif/MANIFEST.json from the table below (kept next to the code so that
the claimed levels and the registered monitors cannot drift apart)."""
import json, os, subprocess

ROOT = os.path.dirname(os.path.dirname(os.path.abspath(__file__)))

# id -> (technique, level text, level note, design ref)
CHECKS = {
 "C01": ("runtime outcome monitor over generated/hostile workloads + fuel-counter hooks + process watchdog",
         "Exploration: every public rendering route is executed on grammar-generated, byte-mutated, hostile-attribute, byte-soup, CSS-bearing and deeply nested inputs across the width set and configuration product of the property; the oracle admits only Ok/TooNarrow, panics are caught with their location, hooked loops turn non-termination into a deterministic fuel verdict and worker death/timeouts are re-examined in isolation. Held means: no violation on the executions counted in the evidence.",
         "Trusts html5ever to terminate; hangs outside hooked loops are decided by a wall-clock watchdog with an isolated 5x retry; 8 MiB stack stands for the main-thread stack.",
         "DESIGN.md §3 C01"),
 "C02": ("runtime width-bound monitor on every output line (unicode-width oracle) over boundary-biased workloads",
         "Exploration: the bound itself is the oracle (min of two width measures <= w on every line of every Ok result, string and lines routes), on documents biased to the width boundary, tables with colspans/nesting/tiny cells, pre, footnotes, wide and zero-width characters, widths 1..=120, all decorators and option mixes allowed by the property.",
         "Display width = unicode-width 0.2; a line is over-wide only if both width measures exceed the limit.",
         "DESIGN.md §3 C02"),
}

def main():
    props = [json.loads(l) for l in open(os.path.join(ROOT, "properties.jsonl"))]
    ids = [p["id"] for p in props]
    checks = []
    for pid in ids:
        if pid not in CHECKS:
            continue
        tech, text, note, ref = CHECKS[pid]
        checks.append({
            "property_id": pid,
            "quick_cmd": f"bin/check {pid} quick",
            "thorough_cmd": f"bin/check {pid} thorough",
            "evidence_file": f"/verif/evidence/{pid}.json",
            "replay_cmd_template": "bin/check --replay {path}",
            "engine": "vmon",
            "level_claimed": {"category": "exploration", "text": text, "design_ref": ref},
            "level_note": note,
            "technique": tech,
        })
    try:
        hook_commits = subprocess.check_output(
            ["git", "-C", "/repo", "log", "--format=%H", "--grep=^verif hooks"], text=True).split()
    except Exception:
        hook_commits = []
    manifest = {
        "version": 1,
        "setup_cmd": "bin/check --build",
        "hooks": {
            "guard": "cargo feature verif_hooks (html2text/verif_hooks; off by default)",
            "enable": "the harness crate depends on /repo by path with features [css, verif_hooks] (harness/Cargo.toml feature `hooks`); bin/check rebuilds it with `cargo build --offline --profile verif` before every run",
            "baseline_off_cmd": "cd /repo && cargo test --workspace --no-fail-fast --offline",
            "source_commits": hook_commits,
            "add_only": True,
        },
        "engines": [{
            "name": "vmon",
            "path": "harness/",
            "serves_properties": [c["property_id"] for c in checks],
            "kind_free_text": "Rust harness linking the real crate: workload generators, oracle DOM (own html5ever TreeSink), reference models, per-property runtime monitors, supervisor/worker processes with watchdogs, known-findings matcher, evidence writer",
        }],
        "checks": checks,
        "not_applicable": [
            {"property_id": pid, "reason": "monitor not built yet in this commit (work in progress; runtime monitoring does apply)"}
            for pid in ids if pid not in CHECKS
        ],
        "notes": "All checks are runtime monitors over executions of the real crate (technique family: runtime monitoring and sanitizers). Exit 0 = held on what was explored, 1 = VIOLATION line with replay file, 2 = inconclusive (never on the unchanged tree by construction of the reach thresholds). Known findings: /verif/known_findings.json.",
    }
    with open(os.path.join(ROOT, "MANIFEST.json"), "w") as f:
        json.dump(manifest, f, indent=1, ensure_ascii=False)
        f.write("\n")

if __name__ == "__main__":
    main()
