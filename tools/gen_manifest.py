#!/usr/bin/env python3
"""Regenerates /verif/MANIFEST.json from the table below (kept next to the code so that
the claimed levels and the registered monitors cannot drift apart)."""
import json, os, subprocess

ROOT = os.path.dirname(os.path.dirname(os.path.abspath(__file__)))

# id -> (technique, level text, level note, design ref)
CHECKS = {
 "C01": ("runtime outcome monitor over generated/hostile workloads + fuel-counter hooks + process watchdog",
         "Exploration: every public rendering route (one-shot, staged, cross-configuration) is executed on grammar-generated, emoji/variation-selector/joiner-sequence, byte-mutated, hostile-attribute, byte-soup, CSS-bearing and deeply nested inputs across the width set and configuration product of the property; the oracle admits only Ok/TooNarrow, panics are caught with their location, hooked loops turn non-termination into a deterministic fuel verdict and worker death/timeouts are re-examined in isolation. Held means: no violation on the executions counted in the evidence.",
         "Trusts html5ever to terminate; hangs outside hooked loops are decided by a wall-clock watchdog with an isolated 5x retry; 8 MiB stack stands for the main-thread stack.",
         "DESIGN.md §3 C01"),
 "C02": ("runtime width-bound monitor on every output line (unicode-width oracle) over boundary-biased workloads",
         "Exploration: the bound itself is the oracle (min of two width measures <= w on every line of every Ok result, string and lines routes), on documents biased to the width boundary, tables with colspans/nesting/tiny cells, pre, footnotes, wide and zero-width characters, widths 1..=120, all decorators and option mixes allowed by the property.",
         "Display width = unicode-width 0.2; a line is over-wide only if both width measures exceed the limit.",
         "DESIGN.md §3 C02"),
 "C03": ("runtime text-preservation monitor: visible character stream of an independent oracle DOM vs T-projection of the output",
         "Exploration: for every Ok rendering of grammar and byte-mutated documents the T-projection of the output (letters of a token alphabet disjoint from everything the renderer adds) is compared with the visible character stream of the harness's own html5ever TreeSink - as a sequence for table-free documents and raw mode, as a multiset plus per-cell subsequence for bordered tables, and for the trivial decorator on every character. Hand-written regression inputs run as the first cases. Genuine defects of the pinned tree are listed as known findings by structural signature.",
         "Oracle DOM shares html5ever's tokenizer/tree builder with the crate; img alt counts only with a src; template contents/comments/control characters are not visible.",
         "DESIGN.md §3 C03"),
 "C04": ("reference-model monitor: 40-line greedy wrapper vs rendered paragraph lines, bounded-exhaustive word-width tuples + random paragraphs",
         "Exploration with an exhaustive small scope: all word-width tuples (quick: <=4 words of width 1..6; thorough: <=5 words of width 1..7) x all widths 1..=40, and random paragraphs up to 60 words, each rendered as one text node (plain) and split across text nodes/comments/inline elements (rich), under max_wrap_width and inside one prefixed block; lines must equal the reference wrapper's, TooNarrow exactly when a width-2 character meets a width-1 line.",
         "Standalone zero-width words are not generated; display width from unicode-width.",
         "DESIGN.md §3 C04"),
 "C10": ("history monitor: all public routes compared on one reused/cloned render tree over width sequences",
         "Exploration over call histories: one document, one configuration, width sequences with repeats/out-of-order/0/too-narrow values; string_from_read (twice), join(lines_from_read), coloured(identity), render_to_string/render_to_lines on clones of one tree built once, a tree built under another decorator, and the convenience functions from_read / from_read_with_decorator / from_read_rich / parse must agree byte for byte (or fail with the same error) at every position of the history.",
         "Cross-process determinism is compared on the first 400 cases of a run (two worker processes).",
         "DESIGN.md §3 C10"),
 "C11": ("pair monitor: (width 0, without overflow, with overflow) triples; AST-derived prefix bound",
         "Exploration: width 0 must give TooNarrow; with allow_width_overflow every width>=1 must give Ok (fuel/panic/TooNarrow are violations); an Ok result must be byte-identical with overflow allowed; for table-free grammar documents every overflowing line obeys max(w, P + max(min_wrap_width,5)) with P computed from the generator's AST.",
         "P computed for the built-in and ASCII custom decorators.",
         "DESIGN.md §3 C11"),
 "C13": ("metamorphic pair monitor: canonical vs rewritten serialisation of one AST",
         "Exploration: one AST is serialised canonically and with whitespace-run substitution / adjacent comments / span wrapping / gaps between block tags / tag style, alone and combined; plain strings and rich tagged lines must be equal at every sampled width.",
         "Whitespace is only inserted where the property allows it (existing collapsible runs, between block-level siblings).",
         "DESIGN.md §3 C13"),
 "C15": ("metamorphic pair monitor: base configuration vs base+one option, one relation per option",
         "Exploration: per option the documented relation between render(d,w,base) and render(d,w,base+o) is checked (max_wrap>=w no-op, flat-document equivalence, P+m bound, padding only trailing spaces, strikeout only U+0336, no box characters without borders/raw, footnotes off removes only references and list, unwrapped link notes, non-applicable options are no-ops). One genuine defect (padding adds a blank line after an empty <pre> line) is a known finding.",
         "P as in C11; footnote relation compared modulo runs of spaces, strike marks and prefix-only lines.",
         "DESIGN.md §3 C15"),
 "C07": ("compositional runtime monitor: render(block,w) vs prefix + render(content, w - prefix width) through the public API",
         "Exploration: for ul/ol/blockquote/h1-6/dd blocks with generated (nested) content the lines of the block must equal the expected marker/indent/quote prefix followed by the lines of the content rendered separately at the narrower width; ordered markers are start+i, left-aligned and padded to the widest marker of the list; induction over nesting depth covers stacked prefixes.",
         "Items always have content; footnotes off (global numbering is not compositional).",
         "DESIGN.md §3 C07"),
 "C08": ("runtime monitor: footnote list and reference numbers parsed from the output vs link order in the oracle DOM",
         "Exploration: documents with 0..40 links spread over paragraphs, lists, quotes, headings, dt/dd, table cells and nested tables, with empty links and href-less anchors interleaved; the trailing list must be exactly [k]: href_k (hard-wrapped by character), each intact link token must be followed by its number, nothing of the sort with footnotes off.",
         "Only the three plain empty-link forms count as empty; a reference cut by a line break is counted as unobserved.",
         "DESIGN.md §3 C08"),
 "C12": ("reference-model monitor: tab/line expansion model vs rendered <pre>, bounded-exhaustive atom lines + random blocks",
         "Exploration with an exhaustive small scope: all single-line <pre> over atoms {a, ab, space, tab, wide char} (quick <=5, thorough <=6 atoms) x widths 1..=12, and random blocks with line lengths around the available width, inline elements around words and around white space alone, <br>, nesting in li/blockquote: verbatim reproduction when everything fits; width bound, character preservation, line-break preservation and Preformat(false/true) tags otherwise. One genuine tagging defect is a known finding.",
         "Fits-class lines are compared modulo line-trailing spaces; tags of a first piece after leading whitespace are not judged.",
         "DESIGN.md §3 C12"),
 "C16": ("runtime monitor with a parameterised TextDecorator: C07's compositional oracle + width bound + exact affix expectation + trivial-decorator text equality",
         "Exploration: decorator strings drawn from ASCII / 2-byte width-1 / 3-byte width-2 / empty classes; compositional prefix check by display width, every line within the width, no panic with debug assertions on, flat paragraphs equal to the AST-built expected string with affixes, TrivialDecorator emits nothing but text/whitespace/borders.",
         "Decorator family is stateless.",
         "DESIGN.md §3 C16"),
 "C05": ("runtime grid monitor: output parsed into a character-cell grid; local junction/bar rules + row-band structure + stacked rule skeleton",
         "Exploration with an exhaustive small scope (all tables up to 2x2 quick / 2x3 thorough over 3 content classes and all colspan tilings, widths 1..=30) plus random regular tables up to 5x6 with nested tables, row groups, <br>-only cells, paragraphs in cells, under option/decorator variants and inside quotes and list items: equal line widths, outer rules, bars fixed within a row band, and at every rule glyph of the output glyph == f(bar above, bar below); stacked tables: full-width '─'/'/' rule skeleton. One genuine defect (ragged lines when a spanning cell covers a zero-width column) is a known finding.",
         "Band/bar structure is checked for tables without nested tables whose columns all got a width (TableLayout hook); other tables get the local rules and equal widths.",
         "DESIGN.md §3 C05"),
 "C06": ("runtime grid monitor: per-cell rectangles of the parsed grid must contain exactly the cell's text; allocation facts from the TableLayout hook",
         "Exploration on the C05 workload: column boundaries coincide in all rows and with the hooked allocation, widths + separators fit the width given and equal the line width, no column holding text of its own has width 0, and for every cell the token characters read from its rectangle equal the cell's text (containment, order and presence at once); stacked tables keep source order.",
         "Rectangles are checked for tables without nested tables whose columns all got a width; the spanning-cell-narrower-than-colspan defect is a known finding shared with C03.",
         "DESIGN.md §3 C06"),
 "C09": ("runtime monitor: tag vector of every output character vs ancestor chain in the oracle DOM (lock-step alignment with the visible stream)",
         "Exploration: every token character of rich output is aligned with the oracle DOM's visible stream (lock-step for table-free/raw, token search in side-by-side tables) and its tag vector must equal the annotations of its ancestors outermost first (colours per element, then Emphasis/Strong/Strikeout/Code/Link/Image), Preformat exactly inside <pre>; non-text pieces carry a prefix of some element chain; concat(pieces) equals the string route.",
         "dl/dt and sup are kept out (they add annotations the property does not list); one colour/background declaration per element.",
         "DESIGN.md §3 C09"),
 "C14": ("runtime monitor: FragmentStart markers in tagged lines vs id-bearing elements and their first visible character in the oracle DOM",
         "Exploration: each id (or a[name]) on an element with visible text must yield exactly one marker; in table-free documents and raw mode the number of token characters before the marker equals the index of the element's first visible character; removing ids never changes the string output. Regression inputs run first. One genuine defect (marker of a table/row with an empty first cell) is a known finding.",
         "Positions are judged outside side-by-side tables only.",
         "DESIGN.md §3 C14"),
 "C17": ("runtime monitor: totality of add_css/add_agent_css on hostile strings (fuel + watchdog), inertness of document CSS, metamorphic equality of syntactic variants of one sheet AST",
         "Exploration: (a) random UTF-8, CSS token soup and damaged valid sheets must be accepted or rejected with CssParseError, never panic/hang; (b) CSS embedded in a document (style element or attribute) that declares no display/content/white-space never changes whether or which text is rendered; (c) a valid sheet and a variant differing only in whitespace, comments, case of property names/hex digits, final semicolon dropped or doubled, interleaved unknown properties, unknown at-rules and unparsable rule sets give identical rich tagged lines.",
         "Selector names in (c) are lower-case; (b) skips strings that cannot be embedded.",
         "DESIGN.md §3 C17"),
 "C18": ("metamorphic runtime monitor: rendering with hiding CSS vs rendering the AST with the reference-computed hidden subtrees deleted",
         "Exploration: the hidden set comes from the harness's reference selector matcher + cascade on the oracle DOM (class/id/element/compound/descendant/child selectors in user sheets, style elements, inline display:none and the zero-height/hidden-overflow idiom, competing display declarations); the rendering with CSS must equal the rendering of the document with those subtrees deleted at DOM level, for plain strings (footnotes on) and rich tagged lines incl. FragmentStart; with use_doc_css off document styles must be inert.",
         "Selectors never target html/body; colour annotations are ignored in the rich comparison.",
         "DESIGN.md §3 C18"),
 "C19": ("reference-model monitor: exhaustive pairs / sampled triples of competing colour declarations + random sheets vs a reference cascade",
         "Exploration with an exhaustive small scope: every ordered pair and every ordered triple (32^3) of colour declarations over origin x importance x specificity class x source order on one element, plus random sheets in all origins with inline styles over nested documents; the Colour/BgColour annotations of every element's own token must equal the reference cascade's winners along its ancestor chain.",
         "Selector matching is C20's subject; one sheet per origin.",
         "DESIGN.md §3 C19"),
 "C20": ("reference-model monitor: reference selector matcher on the oracle DOM vs colour annotations per element-owned token; exhaustive :nth-child(an+b)",
         "Exploration with an exhaustive small scope: all :nth-child(an+b) for a,b in -5..=5 in several textual forms on sibling lists of 0..8 elements, plus random selectors up to 4 compound steps (element/class/id/universal/compound, descendant and child combinators with arbitrary whitespace, selector lists, mixed-case names) on documents in which every element owns a token; the number of Colour annotations on each token must equal the number of matching ancestors-or-self.",
         "Tables are kept out (row groups are not render nodes); the reference matcher works on the generator's selector AST.",
         "DESIGN.md §3 C20"),
}

def main():
    props = [json.loads(l) for l in open(os.path.join(ROOT, "properties.jsonl"))]
    ids = [p["id"] for p in props]
    checks = []
    for pid in ids:
        if pid not in CHECKS:
            continue
        tech, text, note, ref = CHECKS[pid]
        checks.append({
            "property_id": pid,
            "quick_cmd": f"bin/check {pid} quick",
            "thorough_cmd": f"bin/check {pid} thorough",
            "evidence_file": f"/verif/evidence/{pid}.json",
            "replay_cmd_template": "bin/check --replay {path}",
            "engine": "vmon",
            "level_claimed": {"category": "exploration", "text": text, "design_ref": ref},
            "level_note": note,
            "technique": tech,
        })
    try:
        hook_commits = subprocess.check_output(
            ["git", "-C", "/repo", "log", "--format=%H", "--grep=^verif hooks"], text=True).split()
    except Exception:
        hook_commits = []
    manifest = {
        "version": 1,
        "setup_cmd": "bin/check --build",
        "hooks": {
            "guard": "cargo feature verif_hooks (html2text/verif_hooks; off by default)",
            "enable": "the harness crate depends on /repo by path with features [css, verif_hooks] (harness/Cargo.toml feature `hooks`); bin/check rebuilds it with `cargo build --offline --profile verif` before every run",
            "baseline_off_cmd": "cd /repo && cargo test --workspace --no-fail-fast --offline",
            "source_commits": hook_commits,
            "add_only": True,
        },
        "engines": [{
            "name": "vmon",
            "path": "harness/",
            "serves_properties": [c["property_id"] for c in checks],
            "kind_free_text": "Rust harness linking the real crate: workload generators, oracle DOM (own html5ever TreeSink), reference models, per-property runtime monitors, supervisor/worker processes with watchdogs, known-findings matcher, evidence writer",
        }],
        "checks": checks,
        "not_applicable": [
            {"property_id": pid, "reason": "monitor not built yet in this commit (work in progress; runtime monitoring does apply)"}
            for pid in ids if pid not in CHECKS
        ],
        "notes": "All checks are runtime monitors over executions of the real crate (technique family: runtime monitoring and sanitizers). Exit 0 = held on what was explored, 1 = VIOLATION line with replay file, 2 = inconclusive (never on the unchanged tree by construction of the reach thresholds). Known findings: /verif/known_findings.json.",
    }
    with open(os.path.join(ROOT, "MANIFEST.json"), "w") as f:
        json.dump(manifest, f, indent=1, ensure_ascii=False)
        f.write("\n")

if __name__ == "__main__":
    main()
