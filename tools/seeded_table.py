#!/usr/bin/env python3
"""Prints the markdown table of seeded changes (from /verif/seeded/*/meta.json) for DESIGN.md §6.4."""
import glob, json, os
# what had to be added to the checks before the change was caught (empty: caught as first run)
STRENGTHENED = {
 'C06-padded_cells_skip_pad': 'table workload under pad_block_width / max_wrap_width / min_wrap_width / other decorators, paragraphs inside cells, tables inside quotes and list items; cell rectangles from the hooked allocation when the bars are inconsistent',
 'C01-sup_estimate_recursion': 'deep-nesting generator now also nests <sup> (and every other container tag)',
 'C02-footnote_wide_char_boundary': 'hrefs with wide (katakana) characters',
 'C06-zero_width_span_skip': 'known unsized-column effect is predicted from the hooked column allocation instead of masking every zero-width cell',
 'C06-minsize_visible_separators': 'same as above',
 'C09-pre_wrap_flag_survives_newline': 'Preformat(false)-at-line-start rule; inline elements inside generated <pre>',
 'C15-frag_wrap_width': 'ids in the documents of the option relations',
 'C16-strike_suffix_filtered': 'affix documents rendered with unicode strikeout on as well',
 'C17-comment_star_run': 'comment forms /***/, /* * */, /**//**/ in the variants',
 'C18-idiom_decl_order': 'both declaration orders of the height:0 / overflow:hidden idiom',
 'C20-reparent_stale_parent': 'misnested documents (adoption agency / foster parenting) in the selector corpus',
 'C01-legacy_colour_slice': 'legacy color= / bgcolor= attributes with hostile values',
 'C03-hardwrap_overflow_tail': 'words may end in a combining mark (also after a wide letter)',
 'C04-stale_block_end': 'variant "after-empty-block"',
 'C04-fragstart_wrap_width': 'variant "max-wrap-width-with-id"',
 'C07-ol_empty_item_dropped': 'empty <li> items',
 'C07-subrender_trailing_blank_trim': 'items ending in <br><br>',
 'C08-empty_href_attr': 'href=""',
 'C08-sup_digit_link': 'digit-only <sup><a> links',
 'C09-pre_tag_cache_by_depth': 'inline elements glued to text inside <pre>',
 'C09-sup_digits_early_return': 'digit-only <sup> insertions',
 'C10-staged_root_unwrap': 'CSS white-space: pre on html/body through add_css and <style>',
 'C14-trailing_frags_reversed': 'document-order check for markers with no text between them',
 'C14-anchor_name_after_href': '<a> that is both a link and a named anchor, attributes in either order',
 'C15-pad_blank_line_content': 'known pad finding narrowed to documents with a blank <pre> line; leading / bare <br> in generated documents',
 'C16-dt_affix_before_newline': 'term line of a <dl> expected as <em>-affixed content instead of taken from the crate',
 'C17-atrule_semicolon_in_parens': 'junk statements with ";" inside () and []',
 'C17-doc_styles_joined': 'second (well-formed) and leading (broken) <style> elements',
 'C18-render_ctx_drops_config_css': 'three-step API route inside C18 (C10 caught it before)',
 'C19-specificity_decimal_score': 'selectors repeating a class / an id 11 times in the exhaustive part',
 'C19-block_dedup_ignores_importance': 'blocks with several declarations of one property in the random part (the inline pair of the exhaustive part caught it already)',
 'C20-class_space_only_separator': 'class attributes separated / padded by tab, LF, FF and runs of spaces',
}
rows = []
for d in sorted(glob.glob('/verif/seeded/C*-*')):
    mp = os.path.join(d, 'meta.json')
    if not os.path.exists(mp):
        continue
    m = json.load(open(mp))
    key = os.path.basename(d)
    what = (m.get('what_changed') or '').replace('\n', ' ').replace('|', '/')
    if len(what) > 170:
        what = what[:167] + '...'
    fired = m.get('checks_that_fired') or []
    own = m.get('own_check_fired')
    rows.append((key, what, 'yes' if own else 'no', ' '.join(fired), STRENGTHENED.get(key, '')))
print('| seeded change | what it does | own check fires | checks that fired | added to the checks to catch it |')
print('|---|---|---|---|---|')
for r in rows:
    print('| %s | %s | %s | %s | %s |' % r)
print()
print('%d seeded changes, %d caught by the check of the property they were written against, %d caught by some check.' % (
    len(rows), sum(1 for r in rows if r[2] == 'yes'), sum(1 for r in rows if r[3] and r[3] != 'none')))
