#!/usr/bin/env python3
"""Prints the markdown table of seeded changes (from /verif/seeded/*/meta.json) for DESIGN.md §6.4."""
import glob, json, os
# what had to be added to the checks before the change was caught (empty: caught as first run)
STRENGTHENED = {
 'C01-frag_marker_nothing': 'stray children of <ul> (empty id-carrying elements, named anchors, images without alt, stray text and links)',
 'C02-footnote_newline_measure': 'control characters and line feeds in link targets of the C02 documents',
 'C03-css_dedup_rules': 'rules repeated verbatim at the end of a sheet (A, B, A) in C18 and C19 (a CSS matter: caught there, not by C03)',
 'C04-frag_marker_settles_word': 'ids on inline elements and named anchors in the middle of words',
 'C04-prefixed_block_helper': 'blockquote under a custom decorator whose prefix is two columns but three or four bytes',
 'C06-fragment_on_empty_first_row': 'ids on row groups, cell-less first rows (also modelled in the stacked rule skeleton)',
 'C06-wrapper_empty_check': 'cells whose words sit in <pre> with a final line break',
 'C08-list_stray_children': 'stray children of <ul> in the C08 documents (words among them become links)',
 'C08-block_link_pushdown': 'links wrapped around two or more blocks',
 'C09-pre_ws_override': 'CSS white-space declarations on <pre> elements',
 'C12-flush_drops_indent_only_line': 'white-space-only lines made of tabs',
 'C12-lazy_pre_cont_tag': 'words split between plain text and an inline element',
 'C13-css_last_child_counts_text_nodes': 'structural CSS rules (:nth-child / :first-child / :last-child with colour or generated content) under white-space and comment rewrites',
 'C13-text_estimate_splits_on_space': 'prefixed blocks of very short words; TooNarrow differences under a pure white-space substitution have a signature of their own',
 'C15-pad_to_span_width': 'emoji / variation-selector sequences in the strikeout documents',
 'C16-code_markers_in_pre': 'affix runs inside <pre>',
 'C17-hex_alpha_colours': 'soup templates: hostile tokens (escapes producing non-ASCII, long hex escapes) as the value of a supported property',
 'C17-url_token': 'quoted url( ".." ) forms with white space and brackets in unknown properties and at-rules (the seeded change was re-expressed against the repaired tokenizer)',
 'C18-inline_style_trailing_text': 'style attribute spellings with trailing white space, space before the semicolon, trailing junk, doubled semicolons, upper case',
 'C19-empty_ol_early_return': 'lists without items that carry a class / id, followed by more text',
 'C20-shared_element_id_lookup': 'anchors with a name attribute equal to an id of the vocabulary',
 'C20-selector_match_depth_cap': 'chains of 100-600 wrappers between the matching ancestor and the subject',
 'C01-link_empty_recursive': 'deep nests (3*10^5 levels of b/i/em, with and without text) inside a link',
 'C02-pre_tab_flushes_pending_space': 'inline elements with CSS white-space: pre / pre-wrap whose content starts with a tab, spaces or an ideographic space (use_doc_css)',
 'C03-text_node_moved_out_of_dom': 'a kept DOM converted to a render tree twice (second conversion rendered and checked), in C03 and C10',
 'C04-br_ends_line_in_place': 'variant with a <br> in the middle and white space around it',
 'C04-collapse_word_at_a_time': 'non-ASCII white space (no-break, em, ideographic, thin space, vertical tab) as separator at node boundaries',
 'C06-iterative_tree_clone': 'a quarter of the table renderings go through the three-step route on a clone of the tree',
 'C07-tree_build_size_estimates': 'cross-decorator route inside the compositional check itself',
 'C08-bare_url_link_unnumbered': 'links whose text is their own target',
 'C09-pre_flag_not_depth': '<pre> nested in <pre> (also through an inline element) followed by more outer text',
 'C09-blank_href_not_link': 'links with empty / blank href',
 'C10-plain_text_fast_path': 'markup-free inputs (with byte-order marks, NUL, zero-width space in front), CSS on html/body/*',
 'C05-fragment_marker_on_border': 'ids on tables, first rows, first cells (nested tables too) and on a wrapper <div>',
 'C12-ws_stack_dedup': 'nested <pre> in the pre generator; oracle treats it as a block of its own (lines with content compared in order)',
 'C13-self_describing_link_footnote': 'links whose text is their own target, empty and blank targets',
 'C15-raw_mode_off_restores_borders': 'builder order: no_table_borders() followed by raw_mode(false)',
 'C15-strikeout_unicode_space': 'struck-out runs ending in (non-ASCII) white space',
 'C16-empty_href_not_a_link': 'empty / blank / "#" targets in the affix documents',
 'C17-selector_comment_not_whitespace': 'comments with white space on both sides between compounds and after the selector',
 'C18-style_sheets_level_order': 'author rules split over two <style> elements at different depths (first deep at the start, second after the content)',
 'C19-style_elements_worklist_order': 'author declarations in several <style> elements (one per rule / deep-first then shallow), exhaustive and random part',
 'C19-table_section_colour_handdown': 'tables with classes and ids on row groups, rows and cells in the random part',
 'C20-type_selector_namespace': 'inline SVG / MathML subtrees whose elements own tokens; type selectors naming them',
 'C01-drop_leaf_shortcut': 'depth class: <template> (and alternating template/div, template/span) nests; linear-parsing tags at depth 10^5 in the quick tier',
 'C01-estimate_once_per_tree': 'cross-configuration route (tree built under one decorator, rendered by a configuration with another) in C01, C10 and C16',
 'C02-wrapped_block_min_one_column': 'min_wrap_width(0) in the C02 option mix',
 'C03-insert_child_sibling_list': 'general table generator: ids/classes on row groups, rows without cells, multi-row thead, tfoot, several tbody; ids in C03 documents',
 'C04-blank_inline_elision': 'the space between two words alone inside an inline element',
 'C04-zero_measure_text_skip': 'a zero-width character alone in a text node (inside an element / between comments)',
 'C05-table_cell_align_attribute': 'presentational attributes (align, valign, width, nowrap) on cells',
 'C05-trim_cell_trailing_blank_lines': 'cells whose whole content is <br>, trailing <br> in cells (a <br>-only row is a row with content)',
 'C06-thead_rows_hoisted': 'regular tables with two-row thead, tfoot (also written before tbody), two tbody',
 'C07-subrender_inherit_ws': 'lists written with line breaks between their tags inside <pre>: same markers, one per <li>',
 'C07-ul_indent_hoist': 'drawn custom decorators (non-ASCII / wide / empty prefixes) in C07 itself (C16 caught it before)',
 'C08-footnote_wrap_skips_unmeasured_chars': 'link targets with control characters, zero-width space, wide characters, long enough to be wrapped',
 'C09-pad_block_tag': 'pad_block_width configurations; padding may carry only the annotations of the block holding the line (or of a pending collapsed space)',
 'C09-zero_width_glue': 'combining marks as first character after / inside an inline element',
 'C10-coloured_uses_doc_css': 'documents with <style> elements and style= attributes that change text, with and without use_doc_css',
 'C10-dedupe_style_blocks': 'several <style> elements whose rules tie in the cascade (colour, display, white-space)',
 'C12-hard_wrap_full_line_assumed': 'runs of spaces ending exactly in the last column followed by a tab and a word',
 'C12-prune_blank_inline_containers': 'white space / <br> as the whole content of an inline or unknown element inside <pre>',
 'C13-link_edge_space_hoist': 'collapsible white space at the inner edges of inline elements; comments in the middle of a white-space run',
 'C13-cjk_source_break_join': 'words made of wide characters only (a run between two wide characters)',
 'C14-sup_digits_swallows_marker': 'ids on <sup>; elements whose visible content has no token character (digits) are due a marker too',
 'C16-empty_inline_elements_dropped': 'inline elements without rendered content in the affix documents',
 'C16-estimates_cached_at_parse': 'tree built under another decorator, rendered with the custom one (must equal the one-shot result)',
 'C17-reject_unparsed_tail': 'sheets ending in a comment (after a rule, an at-rule, a skipped rule set), leading comments',
 'C17-unknown_value_fast_skip': 'comments between the value tokens of unknown properties; comment bodies with ; } { quotes @',
 'C18-noempty_dom_children_check': 'blocks whose children are all hidden glued to inline text; reference deletion leaves a placeholder only between two text nodes',
 'C20-class_selector_source_slice': 'class / id names that need CSS escapes (sm:warn, w-1/2, a.b, sec:2)',
 'C06-padded_cells_skip_pad': 'table workload under pad_block_width / max_wrap_width / min_wrap_width / other decorators, paragraphs inside cells, tables inside quotes and list items; cell rectangles from the hooked allocation when the bars are inconsistent',
 'C01-sup_estimate_recursion': 'deep-nesting generator now also nests <sup> (and every other container tag)',
 'C02-footnote_wide_char_boundary': 'hrefs with wide (katakana) characters',
 'C06-zero_width_span_skip': 'known unsized-column effect is predicted from the hooked column allocation instead of masking every zero-width cell',
 'C06-minsize_visible_separators': 'same as above',
 'C09-pre_wrap_flag_survives_newline': 'Preformat(false)-at-line-start rule; inline elements inside generated <pre>',
 'C15-frag_wrap_width': 'ids in the documents of the option relations',
 'C16-strike_suffix_filtered': 'affix documents rendered with unicode strikeout on as well',
 'C17-comment_star_run': 'comment forms /***/, /* * */, /**//**/ in the variants',
 'C18-idiom_decl_order': 'both declaration orders of the height:0 / overflow:hidden idiom',
 'C20-reparent_stale_parent': 'misnested documents (adoption agency / foster parenting) in the selector corpus',
 'C01-legacy_colour_slice': 'legacy color= / bgcolor= attributes with hostile values',
 'C03-hardwrap_overflow_tail': 'words may end in a combining mark (also after a wide letter)',
 'C04-stale_block_end': 'variant "after-empty-block"',
 'C04-fragstart_wrap_width': 'variant "max-wrap-width-with-id"',
 'C07-ol_empty_item_dropped': 'empty <li> items',
 'C07-subrender_trailing_blank_trim': 'items ending in <br><br>',
 'C08-empty_href_attr': 'href=""',
 'C08-sup_digit_link': 'digit-only <sup><a> links',
 'C09-pre_tag_cache_by_depth': 'inline elements glued to text inside <pre>',
 'C09-sup_digits_early_return': 'digit-only <sup> insertions',
 'C10-staged_root_unwrap': 'CSS white-space: pre on html/body through add_css and <style>',
 'C14-trailing_frags_reversed': 'document-order check for markers with no text between them',
 'C14-anchor_name_after_href': '<a> that is both a link and a named anchor, attributes in either order',
 'C15-pad_blank_line_content': 'known pad finding narrowed to documents with a blank <pre> line; leading / bare <br> in generated documents',
 'C16-dt_affix_before_newline': 'term line of a <dl> expected as <em>-affixed content instead of taken from the crate',
 'C17-atrule_semicolon_in_parens': 'junk statements with ";" inside () and []',
 'C17-doc_styles_joined': 'second (well-formed) and leading (broken) <style> elements',
 'C18-render_ctx_drops_config_css': 'three-step API route inside C18 (C10 caught it before)',
 'C19-specificity_decimal_score': 'selectors repeating a class / an id 11 times in the exhaustive part',
 'C19-block_dedup_ignores_importance': 'blocks with several declarations of one property in the random part (the inline pair of the exhaustive part caught it already)',
 'C20-class_space_only_separator': 'class attributes separated / padded by tab, LF, FF and runs of spaces',
}
rows = []
for d in sorted(glob.glob('/verif/seeded/C*-*')):
    mp = os.path.join(d, 'meta.json')
    if not os.path.exists(mp):
        continue
    m = json.load(open(mp))
    key = os.path.basename(d)
    what = (m.get('what_changed') or '').replace('\n', ' ').replace('|', '/')
    if len(what) > 170:
        what = what[:167] + '...'
    fired = m.get('checks_that_fired') or []
    own = m.get('own_check_fired')
    if m.get('superseded'):
        rows.append((key, what, 'n/a (superseded)', 'n/a', 'no longer a violation on the repaired tree: ' + m['superseded'][:160]))
        continue
    rows.append((key, what, 'yes' if own else 'no', ' '.join(fired), STRENGTHENED.get(key, '')))
print('| seeded change | what it does | own check fires | checks that fired | added to the checks to catch it |')
print('|---|---|---|---|---|')
for r in rows:
    print('| %s | %s | %s | %s | %s |' % r)
print()
live = [r for r in rows if not r[2].startswith('n/a')]
print('%d seeded changes (%d of them no longer violations on the repaired tree), %d of the remaining %d caught by the check of the property they were written against, %d caught by some check.' % (
    len(rows), len(rows) - len(live), sum(1 for r in live if r[2] == 'yes'), len(live), sum(1 for r in live if r[3] and r[3] != 'none')))
