#!/usr/bin/env python3
"""Prints the markdown table of seeded changes (from /verif/seeded/*/meta.json) for DESIGN.md §6.4."""
import glob, json, os
rows = []
for d in sorted(glob.glob('/verif/seeded/C*-*')):
    mp = os.path.join(d, 'meta.json')
    if not os.path.exists(mp):
        continue
    m = json.load(open(mp))
    key = os.path.basename(d)
    what = (m.get('what_changed') or '').replace('\n', ' ').replace('|', '/')
    if len(what) > 170:
        what = what[:167] + '...'
    fired = m.get('checks_that_fired') or []
    own = m.get('own_check_fired')
    rows.append((key, what, 'yes' if own else 'no', ' '.join(fired)))
print('| seeded change | what it does | own check fires | checks that fired |')
print('|---|---|---|---|')
for r in rows:
    print('| %s | %s | %s | %s |' % r)
print()
print('%d seeded changes, %d caught by the check of the property they were written against, %d caught by some check.' % (
    len(rows), sum(1 for r in rows if r[2] == 'yes'), sum(1 for r in rows if r[3] and r[3] != 'none')))
