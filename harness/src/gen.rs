//! Workload generators: grammar documents (AST), byte-level mutation, hostile
//! attribute values, raw byte soups, deep nesting.

use crate::ast::{El, Node};
use crate::rng::Rng;
use crate::textutil::{COMB, WIDE};

/// Which constructs a generated document may contain.
#[derive(Clone, Debug)]
pub struct Profile {
    pub tables: bool,
    pub nested_tables: bool,
    pub colspans: bool,
    pub thead: bool,
    pub pre: bool,
    pub links: bool,
    pub images: bool,
    pub lists: bool,
    pub quotes: bool,
    pub headings: bool,
    pub dl: bool,
    pub sup: bool,
    pub strike: bool,
    pub br: bool,
    pub inline_markup: bool,
    /// probability (per mille) that an element gets an id
    pub id_permille: usize,
    pub class_permille: usize,
    /// per-mille of words containing wide / combining characters
    pub wide_permille: usize,
    pub comb_permille: usize,
    /// per-mille of words that are long (15..40 columns)
    pub long_permille: usize,
    pub max_depth: usize,
    pub max_blocks: usize,
    pub max_words: usize,
    /// if set, word lengths concentrate around this value (w-1, w, w+1)
    pub boundary: Option<usize>,
    /// allow empty table cells and 1-2 character cells
    pub tiny_cells: bool,
    pub ol_starts: bool,
    /// anchors without href carrying name=
    pub a_name: bool,
    /// inline runs may begin with a <br> (a blank line before any content)
    pub lead_br: bool,
    /// link targets may contain control characters (TAB, LF, DEL, U+0001, U+0085)
    pub href_controls: bool,
    /// the content of an inline element may begin / end with collapsible white space
    /// (<a href=x> the docs </a>)
    pub edge_space: bool,
    /// a <ul> may hold children that are not items: an empty element carrying an id, a
    /// named anchor, an image without alternative text, stray text or a stray link
    pub stray_in_list: bool,
    /// lists without any item (<ol class=c>\n</ol>), also styled ones
    pub empty_lists: bool,
    /// a <pre> block may contain another <pre> (directly or inside an inline element)
    /// followed by more text of the outer block
    pub nested_pre: bool,
    /// some links have their own text as target (<a href="Aaaa">Aaaa</a>), an empty
    /// target (href="") or a blank one (href=" ")
    pub odd_hrefs: bool,
    /// per-mille of inter-word spaces written as a non-ASCII white-space character
    /// (no-break space, em space, ideographic space)
    pub uni_space_permille: usize,
    /// text and inline elements written directly inside <table> / <tbody> / <tr>
    /// (the parser foster-parents them in front of the table)
    pub stray_in_table: bool,
}

impl Profile {
    pub fn full() -> Profile {
        Profile {
            tables: true,
            nested_tables: true,
            colspans: true,
            thead: true,
            pre: true,
            links: true,
            images: true,
            lists: true,
            quotes: true,
            headings: true,
            dl: true,
            sup: true,
            strike: true,
            br: true,
            inline_markup: true,
            id_permille: 0,
            class_permille: 0,
            wide_permille: 80,
            comb_permille: 40,
            long_permille: 50,
            max_depth: 4,
            max_blocks: 6,
            max_words: 12,
            boundary: None,
            tiny_cells: true,
            ol_starts: true,
            a_name: false,
            lead_br: false,
            href_controls: false,
            edge_space: false,
            stray_in_table: false,
            odd_hrefs: false,
            uni_space_permille: 0,
            nested_pre: false,
            stray_in_list: false,
            empty_lists: false,
        }
    }
    pub fn no_tables(mut self) -> Profile {
        self.tables = false;
        self.nested_tables = false;
        self
    }
    pub fn no_pre(mut self) -> Profile {
        self.pre = false;
        self
    }
}

/// Produces unique tokens: one upper-case letter, a 3-letter code unique per
/// document, then a random tail.  No token is a substring of another.
#[derive(Clone, Debug, Default)]
pub struct Tokens {
    n: usize,
}

impl Tokens {
    pub fn new() -> Tokens {
        Tokens { n: 0 }
    }
    pub fn count(&self) -> usize {
        self.n
    }
    fn code(&mut self) -> String {
        let i = self.n;
        self.n += 1;
        // the fastest-changing digit comes first, so that neighbouring tokens
        // differ in their first characters (helps diffs and searches)
        let up = (b'A' + (i % 26) as u8) as char;
        let a = (b'a' + (i / 26 % 25) as u8) as char;
        let b = (b'a' + (i / 650 % 25) as u8) as char;
        let c = (b'a' + (i / 16250 % 25) as u8) as char;
        let mut s = String::new();
        s.push(up);
        s.push(a);
        s.push(b);
        s.push(c);
        s
    }
    /// Unique token of display width >= 4; tail drawn per profile.
    pub fn unique(&mut self, rng: &mut Rng, p: &Profile) -> String {
        let mut s = self.code();
        let target = if let Some(b) = p.boundary {
            // widths around the boundary
            let choices = [
                b.saturating_sub(1),
                b,
                b + 1,
                b / 2,
                b * 2 + 1,
                2,
                5,
            ];
            *rng.pick(&choices)
        } else if rng.below(1000) < p.long_permille {
            rng.range(15, 40)
        } else {
            rng.range(4, 9)
        };
        let mut w = 4;
        let mut prev_base = true;
        while w < target {
            if target - w >= 2 && rng.below(1000) < p.wide_permille {
                s.push(*rng.pick(&WIDE));
                w += 2;
                prev_base = true;
            } else if prev_base && rng.below(1000) < p.comb_permille {
                s.push(*rng.pick(&COMB));
                prev_base = false;
            } else {
                s.push((b'a' + rng.below(25) as u8) as char);
                w += 1;
                prev_base = true;
            }
        }
        // a word may also end in a combining mark (after a narrow or a wide letter)
        if prev_base && rng.below(1000) < p.comb_permille {
            s.push(*rng.pick(&COMB));
        }
        s
    }
    /// Short non-unique word (1..3 columns), for tiny cells.
    pub fn tiny(&mut self, rng: &mut Rng, p: &Profile) -> String {
        match rng.below(4) {
            0 => "a".to_string(),
            1 => ((b'a' + rng.below(26) as u8) as char).to_string()
                + &((b'a' + rng.below(26) as u8) as char).to_string(),
            2 if p.wide_permille > 0 => rng.pick(&WIDE).to_string(),
            _ => "xyz".to_string(),
        }
    }
}

pub struct DocGen<'a> {
    pub rng: &'a mut Rng,
    pub p: Profile,
    pub tok: Tokens,
    pub next_id: usize,
    pub next_href: usize,
    in_link: bool,
}

const INLINE_TAGS: [&str; 7] = ["em", "strong", "code", "span", "i", "s", "del"];

impl<'a> DocGen<'a> {
    pub fn new(rng: &'a mut Rng, p: Profile) -> DocGen<'a> {
        DocGen {
            rng,
            p,
            tok: Tokens::new(),
            next_id: 0,
            next_href: 0,
            in_link: false,
        }
    }

    fn deco(&mut self, mut e: El) -> El {
        if self.rng.below(1000) < self.p.id_permille {
            let id = format!("i{}", self.next_id);
            self.next_id += 1;
            e.attrs.push(("id".into(), id));
        }
        if self.rng.below(1000) < self.p.class_permille {
            let n = self.rng.range(1, 2);
            let mut cls = Vec::new();
            for _ in 0..n {
                cls.push(format!("c{}", self.rng.below(4)));
            }
            // class names are separated by any run of ASCII whitespace
            let sep = *self.rng.pick(&[" ", " ", " ", "  ", "\t", "\n", "\x0c", " \n   "]);
            let mut v = cls.join(sep);
            if self.rng.chance(1, 10) {
                v = format!("{}{}{}", sep, v, sep);
            }
            e.attrs.push(("class".into(), v));
        }
        e
    }

    pub fn word(&mut self) -> Node {
        let w = self.tok.unique(self.rng, &self.p.clone());
        Node::Word(w)
    }

    fn href(&mut self) -> String {
        let n = self.next_href;
        self.next_href += 1;
        // digits, '/', and wide katakana: all disjoint from the token alphabet
        match self.rng.below(6) {
            0 => format!("/{}", n),
            1 => format!("/{}/{}", n, self.rng.below(100000)),
            2 => format!("{}", 1000 + n),
            3 => format!("/{}/{}/{}", n, 12345678, 87654321),
            4 => {
                // wide characters at varying offsets (footnote wrapping at a 2-column boundary)
                let mut s = format!("/{}", n);
                for _ in 0..self.rng.range(2, 12) {
                    if self.rng.chance(1, 2) {
                        s.push(*self.rng.pick(&['テ', 'ス', 'ト', 'ペ', 'ジ']));
                    } else {
                        s.push((b'0' + self.rng.below(10) as u8) as char);
                    }
                }
                s
            }
            _ if self.p.href_controls => {
                // characters without a display width inside a target long enough to be wrapped
                let mut s = format!("/{}/", n);
                for _ in 0..self.rng.range(4, 30) {
                    if self.rng.chance(1, 6) {
                        s.push(*self.rng.pick(&['\t', '\u{7f}', '\u{1}', '\u{85}', '\n', '\u{200b}']));
                    } else {
                        s.push((b'0' + self.rng.below(10) as u8) as char);
                    }
                }
                s
            }
            _ => format!("/{}", n),
        }
    }

    /// An empty element that only carries an id / anchor name (no content).
    pub fn empty_anchor(&mut self) -> Node {
        let name = format!("e{}", self.next_id);
        self.next_id += 1;
        match self.rng.below(3) {
            0 => El::new("span").attr("id", &name).node(),
            1 => El::new("a").attr("name", &name).node(),
            _ => El::new("div").attr("id", &name).node(),
        }
    }

    fn edge_spaces(&mut self, inner: &mut Vec<Node>) {
        if self.p.edge_space {
            if self.rng.chance(1, 5) {
                inner.insert(0, Node::Space);
            }
            if self.rng.chance(1, 5) {
                inner.push(Node::Space);
            }
        }
    }

    /// A run of inline content: words separated by spaces, with inline markup.
    pub fn inline_run(&mut self, max_words: usize, depth: usize) -> Vec<Node> {
        let n = self.rng.range(1, max_words.max(1));
        let mut out = Vec::new();
        let mut i = 0;
        while i < n {
            if !out.is_empty() {
                // usually a space between items, sometimes none (adjacent markup)
                if self.rng.chance(9, 10) {
                    if self.rng.below(1000) < self.p.uni_space_permille {
                        out.push(Node::Raw(self.rng.pick(&["\u{a0}", "\u{2003}", "\u{3000}", "\u{202f}", "\u{a0} "]).to_string()));
                    } else {
                        out.push(Node::Space);
                    }
                }
            }
            let r = self.rng.below(100);
            if self.p.inline_markup && depth < 3 && r < 18 {
                let mut choices: Vec<&str> = vec!["em", "strong", "code", "span", "i"];
                if self.p.strike {
                    choices.push("s");
                    choices.push("del");
                }
                let tag = *self.rng.pick(&choices);
                let mut inner = self.inline_run(3, depth + 1);
                self.edge_spaces(&mut inner);
                let e = self.deco(El::with(tag, inner));
                out.push(e.node());
                i += 2;
            } else if self.p.links && !self.in_link && depth < 3 && r < 26 {
                self.in_link = true;
                let mut inner = self.inline_run(2, depth + 1);
                self.in_link = false;
                self.edge_spaces(&mut inner);
                let mut href = self.href();
                if self.p.odd_hrefs && self.rng.chance(1, 4) {
                    match self.rng.below(3) {
                        0 => {
                            // a single word that is its own target
                            let w = self.tok.unique(self.rng, &self.p.clone());
                            href = w.clone();
                            inner = vec![Node::Word(w)];
                        }
                        1 => href = String::new(),
                        _ => href = " ".to_string(),
                    }
                }
                let e = self.deco(El::with("a", inner).attr("href", &href));
                out.push(e.node());
                i += 2;
            } else if self.p.a_name && !self.in_link && depth < 3 && r < 29 {
                self.in_link = true;
                let inner = self.inline_run(2, depth + 1);
                self.in_link = false;
                let name = format!("n{}", self.next_id);
                self.next_id += 1;
                // a named anchor may be a link as well, with the attributes in either order
                let e = match if self.p.links { self.rng.below(4) } else { 0 } {
                    2 => {
                        let href = self.href();
                        El::with("a", inner).attr("href", &href).attr("name", &name)
                    }
                    3 => {
                        let href = self.href();
                        El::with("a", inner).attr("name", &name).attr("href", &href)
                    }
                    _ => El::with("a", inner).attr("name", &name),
                };
                out.push(e.node());
                i += 2;
            } else if self.p.images && r < 31 {
                let alt = self.tok.unique(self.rng, &self.p.clone());
                let src = self.href();
                let e = self.deco(El::new("img").attr("src", &src).attr("alt", &alt));
                out.push(e.node());
                i += 1;
            } else if self.p.sup && depth < 3 && r < 33 {
                let inner = if self.rng.chance(1, 2) {
                    vec![self.word()]
                } else {
                    self.inline_run(2, depth + 1)
                };
                let e = self.deco(El::with("sup", inner));
                out.push(e.node());
                i += 1;
            } else if self.p.br && r < 36 && !out.is_empty() {
                out.push(El::new("br").node());
                i += 1;
            } else {
                out.push(self.word());
                i += 1;
            }
        }
        if self.p.lead_br && depth == 0 && self.rng.chance(1, 10) {
            out.insert(0, El::new("br").node());
        }
        // occasional edge whitespace
        if self.rng.chance(1, 8) {
            out.insert(0, Node::Space);
        }
        if self.rng.chance(1, 8) {
            out.push(Node::Space);
        }
        // never two Spaces in a row
        out.dedup_by(|a, b| matches!(a, Node::Space) && matches!(b, Node::Space));
        out
    }

    /// Flow content: blocks, sometimes with loose inline runs between them.
    pub fn flow(&mut self, depth: usize, max_blocks: usize) -> Vec<Node> {
        let n = self.rng.range(1, max_blocks.max(1));
        let mut out = Vec::new();
        for _ in 0..n {
            if self.p.lead_br && self.rng.chance(1, 12) {
                // a bare line break between (or before) blocks, alone or in a paragraph of its own
                if self.rng.chance(1, 2) {
                    out.push(El::new("br").node());
                } else {
                    out.push(El::with("p", vec![El::new("br").node()]).node());
                }
            }
            if self.rng.chance(1, 6) {
                // loose inline content directly in the flow container
                let mw = self.p.max_words;
                out.extend(self.inline_run(mw, 0));
                // inline runs must be separated from the next inline run by a block
                let b = self.block(depth);
                out.push(b);
            } else {
                let b = self.block(depth);
                out.push(b);
            }
        }
        out
    }

    pub fn block(&mut self, depth: usize) -> Node {
        let p = self.p.clone();
        let deep = depth >= p.max_depth;
        let mut kinds: Vec<(&str, usize)> = vec![("p", 30), ("div", 8)];
        if p.headings {
            kinds.push(("h", 8));
        }
        if !deep {
            if p.lists {
                kinds.push(("ul", 10));
                kinds.push(("ol", 10));
            }
            if p.quotes {
                kinds.push(("blockquote", 8));
            }
            if p.dl {
                kinds.push(("dl", 5));
            }
            if p.tables {
                kinds.push(("table", 12));
            }
        }
        if p.pre {
            kinds.push(("pre", 6));
        }
        let weights: Vec<usize> = kinds.iter().map(|k| k.1).collect();
        let k = kinds[self.rng.pick_weighted(&weights)].0;
        match k {
            "p" => {
                let c = self.inline_run(p.max_words, 0);
                self.deco(El::with("p", c)).node()
            }
            "div" => {
                let c = if deep || self.rng.chance(1, 2) {
                    self.inline_run(p.max_words, 0)
                } else {
                    self.flow(depth + 1, 3)
                };
                self.deco(El::with("div", c)).node()
            }
            "h" => {
                let lvl = self.rng.range(1, 6);
                let c = self.inline_run(p.max_words.min(6), 0);
                self.deco(El::with(&format!("h{}", lvl), c)).node()
            }
            "ul" | "ol" => {
                let n = self.rng.range(1, 4);
                let mut items = Vec::new();
                for _ in 0..n {
                    let c = self.item_content(depth + 1);
                    items.push(self.deco(El::with("li", c)).node());
                }
                if p.empty_lists && self.rng.chance(1, 10) {
                    // no item at all, only the white space between the tags
                    items.clear();
                    if self.rng.chance(1, 2) {
                        items.push(Node::Raw("\n".into()));
                    }
                }
                if k == "ul" && p.stray_in_list && self.rng.chance(1, 6) {
                    let stray = match self.rng.below(if p.links { 5 } else { 4 }) {
                        0 => {
                            let id = format!("s{}", self.next_id);
                            self.next_id += 1;
                            El::new("span").attr("id", &id).node()
                        }
                        1 => {
                            let id = format!("s{}", self.next_id);
                            self.next_id += 1;
                            El::new("a").attr("name", &id).node()
                        }
                        2 => El::new("img").attr("src", "/9").attr("id", "noalt").node(),
                        3 => self.word(),
                        _ => {
                            let w = self.word();
                            let href = self.href();
                            El::with("a", vec![w]).attr("href", &href).node()
                        }
                    };
                    let at = if self.rng.chance(1, 2) { 0 } else { self.rng.below(items.len() + 1) };
                    items.insert(at, stray);
                }
                let mut e = El::with(k, items);
                if k == "ol" && p.ol_starts && self.rng.chance(1, 2) {
                    let starts: [i64; 12] = [0, 1, 2, 3, 8, 9, 10, 98, 99, 100, -1, -12];
                    let s = *self.rng.pick(&starts);
                    e.attrs.push(("start".into(), s.to_string()));
                }
                self.deco(e).node()
            }
            "blockquote" => {
                let c = if self.rng.chance(1, 2) {
                    self.inline_run(p.max_words, 0)
                } else {
                    self.flow(depth + 1, 3)
                };
                self.deco(El::with("blockquote", c)).node()
            }
            "dl" => {
                let n = self.rng.range(1, 3);
                let mut items = Vec::new();
                for _ in 0..n {
                    let t = self.inline_run(3, 0);
                    items.push(self.deco(El::with("dt", t)).node());
                    let d = self.item_content(depth + 1);
                    items.push(self.deco(El::with("dd", d)).node());
                }
                self.deco(El::with("dl", items)).node()
            }
            "pre" => {
                let c = self.pre_content();
                self.deco(El::with("pre", c)).node()
            }
            "table" => self.table(depth + 1),
            _ => unreachable!(),
        }
    }

    /// Content of li / dd / td: inline text, optionally followed by blocks.
    fn item_content(&mut self, depth: usize) -> Vec<Node> {
        let mw = self.p.max_words;
        match self.rng.below(6) {
            0 | 1 | 2 => self.inline_run(mw, 0),
            3 => {
                let mut c = self.inline_run(mw.min(4), 0);
                if depth < self.p.max_depth {
                    c.push(self.block(depth));
                }
                c
            }
            4 => {
                let mut c = Vec::new();
                let n = self.rng.range(1, 2);
                for _ in 0..n {
                    let r = self.inline_run(mw, 0);
                    c.push(self.deco(El::with("p", r)).node());
                }
                c
            }
            _ => self.flow(depth, 2),
        }
    }

    pub fn pre_content(&mut self) -> Vec<Node> {
        let nlines = self.rng.range(1, 4);
        let mut nodes: Vec<Node> = Vec::new();
        let mut s = String::new();
        for li in 0..nlines {
            if li > 0 {
                s.push('\n');
            }
            if self.rng.chance(1, 6) {
                continue; // empty line
            }
            let nw = self.rng.range(1, 4);
            if self.rng.chance(1, 4) {
                s.push_str(&" ".repeat(self.rng.range(1, 4)));
            }
            for wi in 0..nw {
                if wi > 0 {
                    if self.rng.chance(1, 6) {
                        s.push('\t');
                    } else {
                        s.push_str(&" ".repeat(self.rng.range(1, 3)));
                    }
                }
                let w = self.tok.unique(self.rng, &self.p.clone());
                if self.p.inline_markup && self.rng.chance(1, 6) {
                    // a word inside an inline element (also right after a newline)
                    if !s.is_empty() {
                        nodes.push(Node::Raw(std::mem::take(&mut s)));
                    }
                    let tag = *self.rng.pick(&["em", "strong", "code", "span"]);
                    nodes.push(El::with(tag, vec![Node::Raw(w)]).node());
                    if self.rng.chance(1, 3) {
                        // a second element glued to the first (no text in between)
                        let tag2 = *self.rng.pick(&["em", "strong", "code", "i"]);
                        let w2 = self.tok.unique(self.rng, &self.p.clone());
                        nodes.push(El::with(tag2, vec![Node::Raw(w2)]).node());
                    }
                } else {
                    s.push_str(&w);
                }
            }
        }
        if !s.is_empty() {
            nodes.push(Node::Raw(s));
        }
        if self.p.nested_pre && self.rng.chance(1, 5) {
            let w1 = self.tok.unique(self.rng, &self.p.clone());
            let w2 = self.tok.unique(self.rng, &self.p.clone());
            let inner = El::with("pre", vec![Node::Raw(w1)]).node();
            let inner = if self.rng.chance(1, 3) { El::with("em", vec![inner]).node() } else { inner };
            let at = self.rng.below(nodes.len() + 1);
            nodes.insert(at, inner);
            nodes.insert(at + 1, Node::Raw(w2));
        }
        if nodes.is_empty() {
            nodes.push(Node::Raw("x".into()));
        }
        nodes
    }

    pub fn cell_content(&mut self, depth: usize) -> Vec<Node> {
        let p = self.p.clone();
        let r = self.rng.below(100);
        if p.tiny_cells && r < 12 {
            Vec::new()
        } else if p.tiny_cells && r < 28 {
            vec![Node::Word(self.tok.tiny(self.rng, &p))]
        } else if r < 70 {
            self.inline_run(p.max_words.min(5), 0)
        } else if r < 80 {
            let mut c = self.inline_run(2, 0);
            c.push(El::new("br").node());
            c.extend(self.inline_run(2, 0));
            c
        } else if r < 90 && p.nested_tables && depth < p.max_depth {
            vec![self.table(depth + 1)]
        } else if r < 95 && depth < p.max_depth {
            self.flow(depth, 2)
        } else {
            self.inline_run(p.max_words, 0)
        }
    }

    pub fn table(&mut self, depth: usize) -> Node {
        let p = self.p.clone();
        let nrows = self.rng.range(1, 4);
        let ncols = self.rng.range(1, 4);
        let mut rows = Vec::new();
        for _ in 0..nrows {
            let mut cells = Vec::new();
            let mut c = 0;
            while c < ncols {
                let span = if p.colspans && self.rng.chance(1, 5) {
                    self.rng.range(1, ncols - c)
                } else {
                    1
                };
                let content = self.cell_content(depth);
                let tag = if self.rng.chance(1, 8) { "th" } else { "td" };
                let mut e = El::with(tag, content);
                if span > 1 {
                    e.attrs.push(("colspan".into(), span.to_string()));
                }
                cells.push(self.deco(e).node());
                c += span;
            }
            // irregular rows sometimes (fewer cells)
            if p.colspans && self.rng.chance(1, 10) && cells.len() > 1 {
                cells.pop();
            }
            if p.stray_in_table && self.rng.chance(1, 8) {
                // stray text / inline element between the cells of a row
                let at = self.rng.below(cells.len() + 1);
                let stray = if self.rng.chance(1, 2) {
                    self.word()
                } else {
                    let w = self.word();
                    El::with(*self.rng.pick(&["em", "span", "a"]), vec![w]).node()
                };
                cells.insert(at, stray);
            }
            rows.push(self.deco(El::with("tr", cells)).node());
            if p.stray_in_table && self.rng.chance(1, 10) {
                // stray text between two rows
                let w = self.word();
                rows.push(w);
            }
        }
        // a row without any cell now and then (renders nothing, but sits where the
        // markers of its row group would be parked)
        if p.thead && self.rng.chance(1, 12) {
            let at = if self.rng.chance(1, 2) { 0 } else { self.rng.below(rows.len() + 1) };
            let e = self.deco(El::with("tr", Vec::new()));
            rows.insert(at, e.node());
        }
        // row groups: thead (one or two rows), one or two tbody, tfoot (usually last,
        // sometimes written before the body as HTML 4 asked for); rows are rendered in
        // source order whatever the group
        let body = if p.thead && rows.len() > 1 && self.rng.chance(1, 3) {
            let mut groups: Vec<Node> = Vec::new();
            let nhead = if rows.len() > 2 && self.rng.chance(1, 3) { 2 } else { 1 };
            let head: Vec<Node> = rows.drain(..nhead).collect();
            let foot: Option<Node> = if rows.len() > 1 && self.rng.chance(1, 3) { rows.pop() } else { None };
            let e = self.deco(El::with("thead", head));
            groups.push(e.node());
            let foot_first = foot.is_some() && self.rng.chance(1, 4);
            if foot_first {
                let e = self.deco(El::with("tfoot", vec![foot.clone().unwrap()]));
                groups.push(e.node());
            }
            if rows.len() > 1 && self.rng.chance(1, 3) {
                let k = self.rng.range(1, rows.len() - 1);
                let second: Vec<Node> = rows.drain(k..).collect();
                let e = self.deco(El::with("tbody", rows));
                groups.push(e.node());
                let e = self.deco(El::with("tbody", second));
                groups.push(e.node());
            } else {
                let e = self.deco(El::with("tbody", rows));
                groups.push(e.node());
            }
            if let (Some(f), false) = (foot, foot_first) {
                let e = self.deco(El::with("tfoot", vec![f]));
                groups.push(e.node());
            }
            groups
        } else {
            let e = self.deco(El::with("tbody", rows));
            vec![e.node()]
        };
        self.deco(El::with("table", body)).node()
    }

    pub fn document(&mut self) -> Vec<Node> {
        let mb = self.p.max_blocks;
        let mut d = self.flow(0, mb);
        // documents with ids sometimes contain empty anchors, also at the very end
        if self.p.id_permille > 0 && self.rng.chance(1, 4) {
            let at = if self.rng.chance(1, 2) { d.len() } else { self.rng.below(d.len() + 1) };
            let a = self.empty_anchor();
            d.insert(at, a);
        }
        d
    }
}

// ---------------------------------------------------------------------------
// Byte-level mutation

pub const HOSTILE_DICT: [&str; 64] = [
    "<table>",
    "</table>",
    "<tr>",
    "<td>",
    "<td colspan=0>",
    "<td colspan=1000>",
    "<td colspan=65536>",
    "<td colspan=4294967296>",
    "<td colspan=-1>",
    "<td colspan=18446744073709551615>",
    "<th colspan=3>",
    "</td>",
    "</tr>",
    "<ul>",
    "<ol start=9223372036854775807>",
    "<ol start=-9223372036854775808>",
    "<ol start=99>",
    "<li>",
    "</ul>",
    "</ol>",
    "<blockquote>",
    "</blockquote>",
    "<pre>",
    "</pre>",
    "\t",
    "\n",
    "<br>",
    "<p>",
    "</p>",
    "<div>",
    "</div>",
    "<a href=\"/9\">",
    "</a>",
    "<a name=q>",
    "<img src=/1 alt=zz>",
    "<img alt=q>",
    "<h1>",
    "</h1>",
    "<h6>",
    "<dl><dt>",
    "<dd>",
    "</dl>",
    "<em>",
    "</em>",
    "<s>",
    "</s>",
    "<sup>12</sup>",
    "<sup>",
    "<code>",
    "<template>",
    "</template>",
    "<svg><title>",
    "</svg>",
    "<math><mi>",
    "<select><option>",
    "<textarea>",
    "<plaintext>",
    "<!--",
    "-->",
    "&amp;",
    "&#0;",
    "\u{0}",
    "\u{301}",
    "漢",
];

/// Character sequences on which terminal-width measures disagree (string width
/// vs sum of character widths), zero-width and wide whitespace, controls.
pub const UNI_DICT: [&str; 36] = [
    "\u{2764}\u{FE0F}",
    "\u{FE0F}",
    "\u{FE0E}",
    "\u{1F469}\u{200D}\u{1F469}\u{200D}\u{1F467}",
    "\u{200D}",
    "\u{200B}",
    "\u{200C}",
    "\u{1F1E9}\u{1F1EA}",
    "\u{1F1E9}",
    "\u{1F44D}\u{1F3FD}",
    "\u{1F3FB}",
    "\u{1100}\u{1161}\u{11A8}",
    "\u{1160}",
    "\u{AD}",
    "\u{2028}",
    "\u{2029}",
    "\u{FEFF}",
    "\u{85}",
    "\u{A0}",
    "\u{3000}",
    "\u{2003}",
    "\u{202E}",
    "\u{FDFA}",
    "\u{0E33}",
    "\u{0BCC}",
    "\u{FF76}\u{FF9E}",
    "1\u{FE0F}\u{20E3}",
    "\u{E0061}",
    "\u{7F}",
    "\u{1B}[31m",
    "\u{0}",
    "\u{301}",
    "\u{308}\u{301}",
    "\u{6F22}",
    "\u{1F600}",
    "\u{263A}\u{FE0F}",
];

/// Insert sequences from UNI_DICT next to letters of text (outside tags).
pub fn sprinkle_unicode(rng: &mut Rng, input: &[u8], permille: usize) -> Vec<u8> {
    let mut out = Vec::with_capacity(input.len() * 2);
    let mut in_tag = false;
    for &b in input {
        out.push(b);
        match b {
            b'<' => in_tag = true,
            b'>' => in_tag = false,
            _ => {
                if !in_tag && (b.is_ascii_alphabetic() || b == b' ' || b == b'\t') && rng.below(1000) < permille {
                    let n = rng.range(1, 3);
                    for _ in 0..n {
                        out.extend_from_slice(rng.pick(&UNI_DICT).as_bytes());
                    }
                }
            }
        }
    }
    out
}

pub fn mutate(rng: &mut Rng, input: &[u8], nops: usize, dict: &[&str]) -> Vec<u8> {
    let mut b = input.to_vec();
    for _ in 0..nops {
        if b.is_empty() {
            b.extend_from_slice(rng.pick(dict).as_bytes());
            continue;
        }
        match rng.below(9) {
            0 => {
                // bit flip
                let i = rng.below(b.len());
                b[i] ^= 1 << rng.below(8);
            }
            1 => {
                // delete a range
                let i = rng.below(b.len());
                let n = rng.range(1, 12).min(b.len() - i);
                b.drain(i..i + n);
            }
            2 => {
                // duplicate a range
                let i = rng.below(b.len());
                let n = rng.range(1, 40).min(b.len() - i);
                let chunk: Vec<u8> = b[i..i + n].to_vec();
                let at = rng.below(b.len() + 1);
                b.splice(at..at, chunk);
            }
            3 => {
                // truncate
                let i = rng.below(b.len());
                if rng.chance(1, 3) {
                    b.truncate(i);
                }
            }
            4 | 5 | 6 => {
                // insert from dictionary
                let at = rng.below(b.len() + 1);
                let w = rng.pick(dict).as_bytes().to_vec();
                b.splice(at..at, w);
            }
            7 => {
                // replace a byte by a random one
                let i = rng.below(b.len());
                b[i] = rng.below(256) as u8;
            }
            _ => {
                // swap two ranges' worth: move a chunk
                let i = rng.below(b.len());
                let n = rng.range(1, 30).min(b.len() - i);
                let chunk: Vec<u8> = b.drain(i..i + n).collect();
                let at = rng.below(b.len() + 1);
                b.splice(at..at, chunk);
            }
        }
    }
    b
}

/// Random bytes with a bias towards markup characters.
pub fn byte_soup(rng: &mut Rng, len: usize) -> Vec<u8> {
    let mut b = Vec::with_capacity(len);
    const SPICE: &[u8] = b"<>/=\"' \t\n&;#-!abctdrlph0123456789";
    for _ in 0..len {
        if rng.chance(3, 5) {
            b.push(*rng.pick(SPICE));
        } else {
            b.push(rng.below(256) as u8);
        }
    }
    b
}

/// `<x>` repeated n times around a word (unclosed: the parser closes them).
pub fn deep_nest(tag: &str, n: usize) -> Vec<u8> {
    let mut s = String::with_capacity(n * (tag.len() + 2) + 16);
    match tag {
        "table" => {
            for _ in 0..n {
                s.push_str("<table><tr><td>");
            }
        }
        "ul" | "ol" => {
            for _ in 0..n {
                s.push('<');
                s.push_str(tag);
                s.push_str("><li>");
            }
        }
        "dl" => {
            for _ in 0..n {
                s.push_str("<dl><dd>");
            }
        }
        t if t.starts_with("alt:") => {
            // two tags alternating, n levels in total
            let parts: Vec<&str> = t.split(':').collect();
            for i in 0..n {
                s.push('<');
                s.push_str(parts[1 + i % 2]);
                s.push('>');
            }
        }
        _ => {
            for _ in 0..n {
                s.push('<');
                s.push_str(tag);
                s.push('>');
            }
        }
    }
    s.push_str("deep");
    s.into_bytes()
}

pub const COLSPAN_VALUES: [&str; 18] = [
    "0",
    "1",
    "2",
    "3",
    "7",
    "1000",
    "65535",
    "65536",
    "2147483648",
    "4294967295",
    "4294967296",
    "9223372036854775807",
    "18446744073709551615",
    "18446744073709551616",
    "-1",
    "abc",
    " 2",
    "2x",
];

pub const OL_START_VALUES: [&str; 14] = [
    "-9223372036854775808",
    "-9223372036854775807",
    "-1",
    "0",
    "1",
    "9",
    "10",
    "99",
    "9223372036854775806",
    "9223372036854775807",
    "9223372036854775808",
    "abc",
    "",
    "+5",
];
