//! Guarded execution of the real crate: configuration description, the public
//! API routes, panic capture, fuel.

use html2text::config::{self, Config};
use html2text::render::{
    PlainDecorator, RichAnnotation, RichDecorator, TaggedLine, TaggedLineElement, TextDecorator,
    TrivialDecorator,
};
use std::cell::RefCell;
use std::panic::{catch_unwind, AssertUnwindSafe};

#[cfg(feature = "hooks")]
pub use html2text::verif_hooks::Event;

/// Stand-in so that monitors compile (and report zero reach) without hooks.
#[cfg(not(feature = "hooks"))]
#[derive(Debug, Clone, PartialEq, Eq)]
pub enum Event {
    TableLayout {
        vertical: bool,
        avail: usize,
        col_widths: Vec<usize>,
        col_min: Vec<usize>,
        col_size: Vec<usize>,
    },
    WidthMinus {
        avail: usize,
        prefix: usize,
        min: usize,
        result: Option<usize>,
        overflowed: bool,
    },
    HardWrap,
    PreWrap,
    LineFlushed {
        limit: usize,
        width: usize,
    },
    SubPush {
        ann_depth: usize,
    },
    SubPop {
        ann_depth: usize,
    },
    LinkStart {
        n: usize,
    },
    LinkRef {
        n: usize,
    },
    EstimateHit,
    EstimateMiss,
    Hidden,
}

pub const HOOKS_ON: bool = cfg!(feature = "hooks");

// ---------------------------------------------------------------------------
// Configuration description

#[derive(Clone, Debug, PartialEq, Eq)]
pub enum Deco {
    Plain,
    PlainNoDecorate,
    Rich,
    Trivial,
    Custom(CustomSpec),
}

impl Deco {
    pub fn name(&self) -> &'static str {
        match self {
            Deco::Plain => "plain",
            Deco::PlainNoDecorate => "plain_no_decorate",
            Deco::Rich => "rich",
            Deco::Trivial => "trivial",
            Deco::Custom(_) => "custom",
        }
    }
}

#[derive(Clone, Debug, PartialEq, Eq)]
pub struct CustomSpec {
    pub quote: String,
    pub bullet: String,
    /// ordered prefix = number + ol_suffix
    pub ol_suffix: String,
    /// header prefix = header_unit * level + header_tail
    pub header_unit: String,
    pub header_tail: String,
    pub em: (String, String),
    pub strong: (String, String),
    pub code: (String, String),
    pub strike: (String, String),
    pub link: (String, String),
    pub img: (String, String),
}

impl CustomSpec {
    pub fn ascii() -> CustomSpec {
        CustomSpec {
            quote: "| ".into(),
            bullet: "- ".into(),
            ol_suffix: ") ".into(),
            header_unit: "=".into(),
            header_tail: " ".into(),
            em: ("_".into(), "_".into()),
            strong: ("!".into(), "!".into()),
            code: ("`".into(), "`".into()),
            strike: ("~".into(), "~".into()),
            link: ("<".into(), ">".into()),
            img: ("{".into(), "}".into()),
        }
    }
    pub fn header_prefix(&self, level: usize) -> String {
        self.header_unit.repeat(level) + &self.header_tail
    }
    pub fn ol_prefix(&self, i: i64) -> String {
        format!("{}{}", i, self.ol_suffix)
    }
}

#[derive(Clone, Debug, PartialEq, Eq, Default)]
pub struct Lbl(pub String);

#[derive(Clone, Debug)]
pub struct CustomDecorator {
    pub spec: CustomSpec,
}

impl TextDecorator for CustomDecorator {
    type Annotation = Lbl;
    fn decorate_link_start(&mut self, url: &str) -> (String, Lbl) {
        (self.spec.link.0.clone(), Lbl(format!("link:{}", url)))
    }
    fn decorate_link_end(&mut self) -> String {
        self.spec.link.1.clone()
    }
    fn decorate_em_start(&self) -> (String, Lbl) {
        (self.spec.em.0.clone(), Lbl("em".into()))
    }
    fn decorate_em_end(&self) -> String {
        self.spec.em.1.clone()
    }
    fn decorate_strong_start(&self) -> (String, Lbl) {
        (self.spec.strong.0.clone(), Lbl("strong".into()))
    }
    fn decorate_strong_end(&self) -> String {
        self.spec.strong.1.clone()
    }
    fn decorate_strikeout_start(&self) -> (String, Lbl) {
        (self.spec.strike.0.clone(), Lbl("strike".into()))
    }
    fn decorate_strikeout_end(&self) -> String {
        self.spec.strike.1.clone()
    }
    fn decorate_code_start(&self) -> (String, Lbl) {
        (self.spec.code.0.clone(), Lbl("code".into()))
    }
    fn decorate_code_end(&self) -> String {
        self.spec.code.1.clone()
    }
    fn decorate_preformat_first(&self) -> Lbl {
        Lbl("pre".into())
    }
    fn decorate_preformat_cont(&self) -> Lbl {
        Lbl("precont".into())
    }
    fn decorate_image(&mut self, src: &str, title: &str) -> (String, Lbl) {
        (
            format!("{}{}{}", self.spec.img.0, title, self.spec.img.1),
            Lbl(format!("img:{}", src)),
        )
    }
    fn header_prefix(&self, level: usize) -> String {
        self.spec.header_prefix(level)
    }
    fn quote_prefix(&self) -> String {
        self.spec.quote.clone()
    }
    fn unordered_item_prefix(&self) -> String {
        self.spec.bullet.clone()
    }
    fn ordered_item_prefix(&self, i: i64) -> String {
        self.spec.ol_prefix(i)
    }
    fn make_subblock_decorator(&self) -> Self {
        self.clone()
    }
}

#[derive(Clone, Copy, Debug, PartialEq, Eq)]
pub enum Origin {
    Agent,
    User,
}

#[derive(Clone, Debug, PartialEq, Eq)]
pub struct Cfg {
    pub deco: Deco,
    pub overflow: bool,
    pub min_wrap: Option<usize>,
    pub max_wrap: Option<usize>,
    pub pad: bool,
    pub raw: bool,
    /// `.raw_mode(false)` called as the last builder step (a no-op on the mode that
    /// must not undo an earlier `no_table_borders()`)
    pub raw_false_last: bool,
    pub no_borders: bool,
    pub no_link_wrap: bool,
    pub footnotes: Option<bool>,
    pub strikeout: Option<bool>,
    pub decorate: bool,
    pub use_doc_css: bool,
    pub css: Vec<(Origin, String)>,
}

impl Cfg {
    pub fn new(deco: Deco) -> Cfg {
        Cfg {
            deco,
            overflow: false,
            min_wrap: None,
            max_wrap: None,
            pad: false,
            raw: false,
            raw_false_last: false,
            no_borders: false,
            no_link_wrap: false,
            footnotes: None,
            strikeout: None,
            decorate: false,
            use_doc_css: false,
            css: Vec::new(),
        }
    }
    pub fn plain() -> Cfg {
        Cfg::new(Deco::Plain)
    }
    pub fn rich() -> Cfg {
        Cfg::new(Deco::Rich)
    }
    pub fn trivial() -> Cfg {
        Cfg::new(Deco::Trivial)
    }
    pub fn plain_nd() -> Cfg {
        Cfg::new(Deco::PlainNoDecorate)
    }
    /// Effective value of the footnote option.
    pub fn footnotes_on(&self) -> bool {
        self.footnotes.unwrap_or(matches!(self.deco, Deco::Plain))
    }
    pub fn strikeout_on(&self) -> bool {
        self.strikeout.unwrap_or(true)
    }
    pub fn borders_on(&self) -> bool {
        !(self.no_borders || self.raw)
    }
    pub fn decorate_on(&self) -> bool {
        self.decorate || matches!(self.deco, Deco::Plain)
    }
    pub fn min_wrap_eff(&self) -> usize {
        self.min_wrap.unwrap_or(3)
    }
    pub fn describe(&self) -> String {
        let mut s = String::from(self.deco.name());
        if self.overflow {
            s.push_str("+overflow");
        }
        if let Some(k) = self.min_wrap {
            s.push_str(&format!("+min_wrap({})", k));
        }
        if let Some(k) = self.max_wrap {
            s.push_str(&format!("+max_wrap({})", k));
        }
        if self.pad {
            s.push_str("+pad");
        }
        if self.raw {
            s.push_str("+raw");
        }
        if self.raw_false_last {
            s.push_str("+then_raw_mode(false)");
        }
        if self.no_borders {
            s.push_str("+noborders");
        }
        if self.no_link_wrap {
            s.push_str("+nolinkwrap");
        }
        if let Some(b) = self.footnotes {
            s.push_str(&format!("+footnotes({})", b));
        }
        if let Some(b) = self.strikeout {
            s.push_str(&format!("+strikeout({})", b));
        }
        if self.decorate {
            s.push_str("+decorate");
        }
        if self.use_doc_css {
            s.push_str("+doccss");
        }
        for (o, c) in &self.css {
            s.push_str(&format!("+css{:?}({:?})", o, c));
        }
        if let Deco::Custom(spec) = &self.deco {
            s.push_str(&format!("{:?}", spec));
        }
        s
    }
}

fn apply<D: TextDecorator>(mut c: Config<D>, cfg: &Cfg) -> Result<Config<D>, html2text::Error> {
    if cfg.overflow {
        c = c.allow_width_overflow();
    }
    if let Some(k) = cfg.min_wrap {
        c = c.min_wrap_width(k);
    }
    if let Some(k) = cfg.max_wrap {
        c = c.max_wrap_width(k);
    }
    if cfg.pad {
        c = c.pad_block_width();
    }
    if cfg.no_borders {
        c = c.no_table_borders();
    }
    if cfg.raw {
        c = c.raw_mode(true);
    }
    if cfg.no_link_wrap {
        c = c.no_link_wrapping();
    }
    if let Some(b) = cfg.footnotes {
        c = c.link_footnotes(b);
    }
    if let Some(b) = cfg.strikeout {
        c = c.unicode_strikeout(b);
    }
    if cfg.decorate {
        c = c.do_decorate();
    }
    if cfg.use_doc_css {
        c = c.use_doc_css();
    }
    for (o, s) in &cfg.css {
        c = match o {
            Origin::Agent => c.add_agent_css(s)?,
            Origin::User => c.add_css(s)?,
        };
    }
    if cfg.raw_false_last {
        c = c.raw_mode(false);
    }
    Ok(c)
}

// ---------------------------------------------------------------------------
// Harness-side view of annotated output

#[derive(Clone, Debug, PartialEq, Eq, Hash)]
pub enum Ann {
    Default,
    Link(String),
    Image(String),
    Emphasis,
    Strong,
    Strikeout,
    Code,
    Preformat(bool),
    Colour(u8, u8, u8),
    BgColour(u8, u8, u8),
    Label(String),
    Other(String),
}

pub trait AnnConv {
    fn conv(&self) -> Ann;
}
impl AnnConv for () {
    fn conv(&self) -> Ann {
        Ann::Default
    }
}
impl AnnConv for Lbl {
    fn conv(&self) -> Ann {
        Ann::Label(self.0.clone())
    }
}
impl AnnConv for RichAnnotation {
    fn conv(&self) -> Ann {
        match self {
            RichAnnotation::Default => Ann::Default,
            RichAnnotation::Link(s) => Ann::Link(s.clone()),
            RichAnnotation::Image(s) => Ann::Image(s.clone()),
            RichAnnotation::Emphasis => Ann::Emphasis,
            RichAnnotation::Strong => Ann::Strong,
            RichAnnotation::Strikeout => Ann::Strikeout,
            RichAnnotation::Code => Ann::Code,
            RichAnnotation::Preformat(b) => Ann::Preformat(*b),
            RichAnnotation::Colour(c) => Ann::Colour(c.r, c.g, c.b),
            RichAnnotation::BgColour(c) => Ann::BgColour(c.r, c.g, c.b),
            other => Ann::Other(format!("{:?}", other)),
        }
    }
}

#[derive(Clone, Debug, PartialEq, Eq)]
pub enum Piece {
    Str { s: String, tags: Vec<Ann> },
    Frag(String),
}

pub type Line = Vec<Piece>;

pub fn line_text(l: &Line) -> String {
    let mut s = String::new();
    for p in l {
        if let Piece::Str { s: t, .. } = p {
            s.push_str(t);
        }
    }
    s
}

pub fn lines_to_string(ls: &[Line]) -> String {
    let mut s = String::new();
    for l in ls {
        s.push_str(&line_text(l));
        s.push('\n');
    }
    s
}

fn conv_lines<A: AnnConv + std::fmt::Debug + Eq + PartialEq + Clone + Default>(ls: Vec<TaggedLine<Vec<A>>>) -> Vec<Line> {
    ls.into_iter()
        .map(|tl| {
            tl.iter()
                .map(|e| match e {
                    TaggedLineElement::Str(ts) => Piece::Str {
                        s: ts.s.clone(),
                        tags: ts.tag.iter().map(|a| a.conv()).collect(),
                    },
                    TaggedLineElement::FragmentStart(n) => Piece::Frag(n.clone()),
                })
                .collect()
        })
        .collect()
}

// ---------------------------------------------------------------------------
// Outcomes and panic capture

#[derive(Clone, Debug, PartialEq, Eq)]
pub enum Outcome<T> {
    Ok(T),
    TooNarrow,
    /// An `Err` other than TooNarrow (Debug text)
    Err(String),
    Panic {
        msg: String,
        loc: String,
    },
    Fuel {
        site: String,
    },
}

impl<T> Outcome<T> {
    pub fn is_ok(&self) -> bool {
        matches!(self, Outcome::Ok(_))
    }
    pub fn ok(&self) -> Option<&T> {
        match self {
            Outcome::Ok(t) => Some(t),
            _ => None,
        }
    }
    /// Ok or TooNarrow: the two outcomes C01 admits.
    pub fn is_total(&self) -> bool {
        matches!(self, Outcome::Ok(_) | Outcome::TooNarrow)
    }
    pub fn kind(&self) -> String {
        match self {
            Outcome::Ok(_) => "Ok".into(),
            Outcome::TooNarrow => "TooNarrow".into(),
            Outcome::Err(e) => format!("Err({})", e),
            Outcome::Panic { msg, loc } => format!("Panic({} @ {})", msg, loc),
            Outcome::Fuel { site } => format!("Fuel({})", site),
        }
    }
    pub fn map<U>(self, f: impl FnOnce(T) -> U) -> Outcome<U> {
        match self {
            Outcome::Ok(t) => Outcome::Ok(f(t)),
            Outcome::TooNarrow => Outcome::TooNarrow,
            Outcome::Err(e) => Outcome::Err(e),
            Outcome::Panic { msg, loc } => Outcome::Panic { msg, loc },
            Outcome::Fuel { site } => Outcome::Fuel { site },
        }
    }
    /// Signature of a non-total outcome, stable across inputs hitting the same site.
    pub fn fail_sig(&self) -> String {
        match self {
            Outcome::Ok(_) | Outcome::TooNarrow => "total".into(),
            Outcome::Err(e) => format!("err:{}", e),
            Outcome::Panic { msg, loc } => format!("panic:{}:{}", loc, msg_class(msg)),
            Outcome::Fuel { site } => format!("hang:{}", site),
        }
    }
}

/// Reduce a panic message to its class (numbers and quoted payloads removed).
pub fn msg_class(msg: &str) -> String {
    let mut out = String::new();
    let mut last_hash = false;
    for c in msg.chars().take(80) {
        if c.is_ascii_digit() {
            if !last_hash {
                out.push('#');
                last_hash = true;
            }
        } else {
            out.push(c);
            last_hash = false;
        }
    }
    out
}

thread_local! {
    static LAST_PANIC: RefCell<Option<(String, String)>> = const { RefCell::new(None) };
}

pub fn install_panic_hook() {
    std::panic::set_hook(Box::new(|info| {
        let msg = if let Some(s) = info.payload().downcast_ref::<&str>() {
            s.to_string()
        } else if let Some(s) = info.payload().downcast_ref::<String>() {
            s.clone()
        } else {
            "<non-string panic>".to_string()
        };
        let loc = info
            .location()
            .map(|l| format!("{}:{}", l.file(), l.line()))
            .unwrap_or_else(|| "?".into());
        LAST_PANIC.with(|p| *p.borrow_mut() = Some((msg, loc)));
    }));
}

pub const DEFAULT_FUEL: u64 = 20_000_000;

pub fn fuel_for(len: usize) -> u64 {
    DEFAULT_FUEL + 2_000 * len as u64
}

#[allow(unused_variables)]
pub fn set_fuel(n: u64) {
    #[cfg(feature = "hooks")]
    html2text::verif_hooks::set_fuel(n);
}

pub fn ticks() -> u64 {
    #[cfg(feature = "hooks")]
    {
        html2text::verif_hooks::ticks()
    }
    #[cfg(not(feature = "hooks"))]
    {
        0
    }
}

pub fn start_recording() {
    #[cfg(feature = "hooks")]
    html2text::verif_hooks::start_recording();
}

pub fn take_events() -> Vec<Event> {
    #[cfg(feature = "hooks")]
    {
        html2text::verif_hooks::take_events()
    }
    #[cfg(not(feature = "hooks"))]
    {
        Vec::new()
    }
}

/// Run `f` under panic capture and fuel.
pub fn guarded<T>(fuel: u64, f: impl FnOnce() -> Result<T, html2text::Error>) -> Outcome<T> {
    LAST_PANIC.with(|p| *p.borrow_mut() = None);
    set_fuel(fuel);
    let r = catch_unwind(AssertUnwindSafe(f));
    set_fuel(u64::MAX);
    match r {
        Ok(Ok(t)) => Outcome::Ok(t),
        Ok(Err(html2text::Error::TooNarrow)) => Outcome::TooNarrow,
        Ok(Err(e)) => Outcome::Err(format!("{:?}", e)),
        Err(_) => {
            let (msg, loc) = LAST_PANIC
                .with(|p| p.borrow_mut().take())
                .unwrap_or(("<unknown>".into(), "?".into()));
            if let Some(rest) = msg.strip_prefix("VERIF_FUEL site=") {
                Outcome::Fuel {
                    site: rest.to_string(),
                }
            } else {
                Outcome::Panic { msg, loc }
            }
        }
    }
}

/// Result of a render with the hook events seen during it.
pub struct Traced<T> {
    pub out: Outcome<T>,
    pub events: Vec<Event>,
    pub ticks: u64,
}

macro_rules! with_config {
    ($cfg:expr, |$c:ident| $body:expr) => {{
        let cfg: &Cfg = $cfg;
        match &cfg.deco {
            Deco::Plain => apply(config::plain(), cfg).and_then(|$c| $body),
            Deco::PlainNoDecorate => apply(config::plain_no_decorate(), cfg).and_then(|$c| $body),
            Deco::Rich => apply(config::rich(), cfg).and_then(|$c| $body),
            Deco::Trivial => {
                apply(config::with_decorator(TrivialDecorator::new()), cfg).and_then(|$c| $body)
            }
            Deco::Custom(spec) => apply(
                config::with_decorator(CustomDecorator { spec: spec.clone() }),
                cfg,
            )
            .and_then(|$c| $body),
        }
    }};
}

/// `Config::string_from_read`
pub fn render_string(cfg: &Cfg, input: &[u8], width: usize) -> Outcome<String> {
    guarded(fuel_for(input.len()), || {
        with_config!(cfg, |c| c.string_from_read(input, width))
    })
}

/// `Config::string_from_read`, recording hook events.
pub fn render_string_traced(cfg: &Cfg, input: &[u8], width: usize) -> Traced<String> {
    start_recording();
    let fuel = fuel_for(input.len());
    LAST_PANIC.with(|p| *p.borrow_mut() = None);
    let out = guarded(fuel, || {
        with_config!(cfg, |c| c.string_from_read(input, width))
    });
    let t = ticks();
    let events = take_events();
    Traced {
        out,
        events,
        ticks: t,
    }
}

/// `Config::lines_from_read`
pub fn render_lines(cfg: &Cfg, input: &[u8], width: usize) -> Outcome<Vec<Line>> {
    guarded(fuel_for(input.len()), || {
        with_config!(cfg, |c| c.lines_from_read(input, width).map(conv_lines))
    })
}

pub fn render_lines_traced(cfg: &Cfg, input: &[u8], width: usize) -> Traced<Vec<Line>> {
    start_recording();
    let out = guarded(fuel_for(input.len()), || {
        with_config!(cfg, |c| c.lines_from_read(input, width).map(conv_lines))
    });
    let t = ticks();
    let events = take_events();
    Traced {
        out,
        events,
        ticks: t,
    }
}

/// `Config::coloured` with an identity colour map (rich only).
pub fn render_coloured(cfg: &Cfg, input: &[u8], width: usize) -> Outcome<String> {
    guarded(fuel_for(input.len()), || {
        apply(config::rich(), cfg).and_then(|c| c.coloured(input, width, |_, s| s.to_string()))
    })
}

/// Staged route: parse_html → dom_to_render_tree → for each width render a clone.
/// Returns one outcome per width (string route and lines route).
pub fn render_staged(
    cfg: &Cfg,
    input: &[u8],
    widths: &[usize],
) -> Outcome<Vec<(Outcome<String>, Outcome<Vec<Line>>)>> {
    let fuel = fuel_for(input.len());
    guarded(fuel, || {
        with_config!(cfg, |c| {
            let dom = c.parse_html(input)?;
            let tree = c.dom_to_render_tree(&dom)?;
            let mut res = Vec::new();
            for &w in widths {
                let t1 = tree.clone();
                let s = guarded(fuel, || c.render_to_string(t1, w));
                let t2 = tree.clone();
                let l = guarded(fuel, || c.render_to_lines(t2, w).map(conv_lines));
                res.push((s, l));
            }
            // Display of the tree must not panic either
            let _ = format!("{}", tree);
            Ok(res)
        })
    })
}

/// Staged route without formatting the tree (Display is a recursive debugging
/// aid and not part of rendering).
pub fn render_staged_noshow(
    cfg: &Cfg,
    input: &[u8],
    widths: &[usize],
) -> Outcome<Vec<(Outcome<String>, Outcome<Vec<Line>>)>> {
    let fuel = fuel_for(input.len());
    guarded(fuel, || {
        with_config!(cfg, |c| {
            let dom = c.parse_html(input)?;
            let tree = c.dom_to_render_tree(&dom)?;
            let mut res = Vec::new();
            for &w in widths {
                let t1 = tree.clone();
                let s = guarded(fuel, || c.render_to_string(t1, w));
                let t2 = tree.clone();
                let l = guarded(fuel, || c.render_to_lines(t2, w).map(conv_lines));
                res.push((s, l));
            }
            Ok(res)
        })
    })
}

/// One parsed DOM converted to a render tree twice (an application that keeps the DOM
/// and re-renders, e.g. on resize): both conversions are rendered.
pub fn render_dom_twice(cfg: &Cfg, input: &[u8], width: usize) -> Outcome<(Outcome<String>, Outcome<String>)> {
    let fuel = fuel_for(input.len());
    guarded(fuel, || {
        with_config!(cfg, |c| {
            let dom = c.parse_html(input)?;
            let t1 = c.dom_to_render_tree(&dom)?;
            let r1 = guarded(fuel, || c.render_to_string(t1, width));
            let t2 = c.dom_to_render_tree(&dom)?;
            let r2 = guarded(fuel, || c.render_to_string(t2, width));
            Ok((r1, r2))
        })
    })
}

/// Cross-configuration staged route: the tree is built by `build`
/// (parse_html + dom_to_render_tree) and rendered by `render`
/// (render_to_string on clones), as an application that parses once and
/// renders for several front ends would do.
pub fn render_cross(
    build: &Cfg,
    render: &Cfg,
    input: &[u8],
    widths: &[usize],
) -> Outcome<Vec<Outcome<String>>> {
    let fuel = fuel_for(input.len());
    guarded(fuel, || {
        let tree = with_config!(build, |c| {
            let dom = c.parse_html(input)?;
            c.dom_to_render_tree(&dom)
        })?;
        with_config!(render, |c| {
            let mut res = Vec::new();
            for &w in widths {
                let t1 = tree.clone();
                res.push(guarded(fuel, || c.render_to_string(t1, w)));
            }
            Ok(res)
        })
    })
}

/// The crate's top-level convenience functions: `from_read`,
/// `from_read_with_decorator(TrivialDecorator)`, `from_read_rich`, and `parse`
/// followed by `render_to_string` of the given configuration.
pub fn convenience_routes(
    cfg: &Cfg,
    input: &[u8],
    width: usize,
) -> (Outcome<String>, Outcome<String>, Outcome<Vec<Line>>, Outcome<String>) {
    let fuel = fuel_for(input.len());
    let a = guarded(fuel, || html2text::from_read(input, width));
    let b = guarded(fuel, || html2text::from_read_with_decorator(input, width, TrivialDecorator::new()));
    let c = guarded(fuel, || html2text::from_read_rich(input, width).map(conv_lines));
    let d = guarded(fuel, || {
        let tree = html2text::parse(input)?;
        with_config!(cfg, |c| c.render_to_string(tree, width))
    });
    (a, b, c, d)
}

/// `add_css` / `add_agent_css` alone (C17a).
pub fn try_add_css(origin: Origin, css: &str) -> Outcome<()> {
    guarded(fuel_for(css.len()), || {
        let c = config::rich();
        match origin {
            Origin::Agent => c.add_agent_css(css).map(|_| ()),
            Origin::User => c.add_css(css).map(|_| ()),
        }
    })
}

/// `html2text::dom_to_parsed_style` of a document.
pub fn parsed_style(input: &[u8]) -> Outcome<String> {
    guarded(fuel_for(input.len()), || {
        let dom = config::plain().parse_html(input)?;
        html2text::dom_to_parsed_style(&dom)
    })
}

#[allow(dead_code)]
pub fn _unused(_: PlainDecorator, _: RichDecorator) {}
