//! Supervisor / worker protocol, verdict aggregation, known-findings matching,
//! replay files and evidence.

use crate::rng::hash_str;
use serde_json::{json, Map, Value};
use std::collections::{BTreeMap, HashSet};
use std::io::{BufRead, BufReader, Write};
use std::process::{Command, Stdio};
use std::sync::atomic::{AtomicU64, Ordering};
use std::sync::{Arc, Mutex};
use std::time::{Duration, Instant};

#[derive(Clone, Copy, Debug, PartialEq, Eq)]
pub enum Tier {
    Quick,
    Thorough,
}

impl Tier {
    pub fn name(&self) -> &'static str {
        match self {
            Tier::Quick => "quick",
            Tier::Thorough => "thorough",
        }
    }
    pub fn parse(s: &str) -> Option<Tier> {
        match s {
            "quick" => Some(Tier::Quick),
            "thorough" => Some(Tier::Thorough),
            _ => None,
        }
    }
}

#[derive(Clone, Debug)]
pub struct Violation {
    /// Specific signature, matched against known_findings.json.
    pub sig: String,
    /// Human-readable description of what failed.
    pub what: String,
    /// Concrete witness (input, width, configuration, observed vs expected).
    pub witness: Value,
}

/// What one case reports.
#[derive(Default)]
pub struct CaseOut {
    pub violations: Vec<Violation>,
    /// named counters, summed over all cases
    pub counters: BTreeMap<String, u64>,
    /// hashes of distinct non-trivial observations
    pub obs: Vec<u64>,
    /// executions of the real code in this case
    pub evals: u64,
    /// description of the case for evidence samples
    pub sample: Option<Value>,
    /// the oracle could not decide this case (counted, not a verdict)
    pub undecided: u64,
    /// digest of everything the real code returned in this case; compared
    /// between two different processes for a sample of cases (determinism)
    pub digest: Option<u64>,
}

impl CaseOut {
    pub fn count(&mut self, name: &str, n: u64) {
        if n > 0 {
            *self.counters.entry(name.to_string()).or_insert(0) += n;
        }
    }
    pub fn inc(&mut self, name: &str) {
        self.count(name, 1);
    }
    /// Track a maximum instead of a sum (stored under "max:<name>").
    pub fn max(&mut self, name: &str, v: u64) {
        let e = self.counters.entry(format!("max:{}", name)).or_insert(0);
        if v > *e {
            *e = v;
        }
    }
    pub fn observe(&mut self, h: u64) {
        self.obs.push(h);
    }
    pub fn observe_str(&mut self, s: &str) {
        self.obs.push(hash_str(s));
    }
    /// Fold a result of the real code into the case digest.
    pub fn digest_str(&mut self, s: &str) {
        let h = hash_str(s);
        self.digest = Some(crate::rng::mix(self.digest.unwrap_or(0x1234), h));
    }
    pub fn violate(&mut self, sig: impl Into<String>, what: impl Into<String>, witness: Value) {
        self.violations.push(Violation {
            sig: sig.into(),
            what: what.into(),
            witness,
        });
    }
}

pub struct Plan {
    /// number of case indices (generation is a pure function of seed+index)
    pub cases: u64,
    /// wall-clock cap for the whole workload (coverage shrinks if hit)
    pub time_cap_s: u64,
    /// per-case watchdog (wall clock); firing is re-examined in isolation
    pub case_timeout_s: u64,
    /// true if the index space is a complete enumeration of a finite scope
    pub exhaustive: bool,
}

pub struct Monitor {
    pub id: &'static str,
    pub title: &'static str,
    pub rule: &'static str,
    pub assumptions: &'static [&'static str],
    pub plan: fn(Tier) -> Plan,
    pub run_case: fn(seed: u64, idx: u64, tier: Tier, out: &mut CaseOut),
    /// counters that must reach the given minimum, else the run is inconclusive
    pub thresholds: fn(Tier) -> Vec<(&'static str, u64)>,
    /// a watchdog timeout / worker death confirmed in isolation is a violation
    /// of this property (totality properties), otherwise it is inconclusive
    pub hang_is_violation: bool,
    /// per-case wall-clock budget override (seconds)
    pub budget: Option<fn(Tier, u64) -> u64>,
}

/// Sanitizer / interpreter legs run a 1/N sample of the planned cases.
pub fn cases_div() -> u64 {
    std::env::var("VERIF_CASES_DIV")
        .ok()
        .and_then(|s| s.trim().parse::<u64>().ok())
        .filter(|d| *d >= 1)
        .unwrap_or(1)
}

pub fn env_seed() -> u64 {
    std::env::var("VERIF_SEED")
        .ok()
        .and_then(|s| s.trim().parse::<i64>().ok())
        .map(|v| v as u64)
        .unwrap_or(1)
}

fn verif_root() -> String {
    std::env::var("VERIF_ROOT").unwrap_or_else(|_| "/verif".to_string())
}

// ---------------------------------------------------------------------------
// Worker

/// Case indices below this are re-run in a second, separate process and the
/// digests of what the real code returned are compared.
pub const DIGEST_SAMPLE: u64 = 400;

static CUR_CASE: AtomicU64 = AtomicU64::new(u64::MAX);
static CUR_START_MS: AtomicU64 = AtomicU64::new(0);
static CUR_BUDGET_MS: AtomicU64 = AtomicU64::new(0);

fn now_ms(t0: Instant) -> u64 {
    t0.elapsed().as_millis() as u64
}

/// Run cases `shard, shard+n, ...` and stream results on stdout.
pub fn worker_main(
    mon: &'static Monitor,
    tier: Tier,
    seed: u64,
    shard: u64,
    nshards: u64,
    only: Option<u64>,
    timeout_mult: u64,
) -> i32 {
    crate::exec::install_panic_hook();
    let mut plan = (mon.plan)(tier);
    plan.cases = (plan.cases / cases_div()).max(1);
    let t0 = Instant::now();
    let deadline = Duration::from_secs(plan.time_cap_s);
    let done = Arc::new(Mutex::new(false));
    let done2 = done.clone();
    let handle = std::thread::Builder::new()
        .stack_size(8 << 20)
        .name("cases".into())
        .spawn(move || {
            let stdout = std::io::stdout();
            let mut agg = CaseOut::default();
            let mut ncases = 0u64;
            let mut nviol = 0u64;
            let mut samples = 0;
            let mut harness_errors = 0u64;
            let mut obs: HashSet<u64> = HashSet::new();
            let mut idx = match only {
                Some(i) => i,
                None => shard,
            };
            while idx < plan.cases || only.is_some() {
                if only.is_none() && t0.elapsed() > deadline {
                    break;
                }
                {
                    let mut o = stdout.lock();
                    let _ = writeln!(o, "B {}", idx);
                    let _ = o.flush();
                }
                let budget_s = match mon.budget {
                    Some(f) => f(tier, idx),
                    None => plan.case_timeout_s,
                };
                CUR_BUDGET_MS.store(budget_s * 1000 * timeout_mult, Ordering::SeqCst);
                CUR_START_MS.store(now_ms(t0), Ordering::SeqCst);
                CUR_CASE.store(idx, Ordering::SeqCst);
                let mut out = CaseOut::default();
                let r = std::panic::catch_unwind(std::panic::AssertUnwindSafe(|| {
                    (mon.run_case)(seed, idx, tier, &mut out);
                }));
                CUR_CASE.store(u64::MAX, Ordering::SeqCst);
                if r.is_err() {
                    harness_errors += 1;
                    let mut o = stdout.lock();
                    let _ = writeln!(
                        o,
                        "E {}",
                        json!({"idx": idx, "error": "harness panicked while judging this case"})
                    );
                }
                ncases += 1;
                if let Some(d) = out.digest {
                    if idx < DIGEST_SAMPLE {
                        let mut o = stdout.lock();
                        let _ = writeln!(o, "D {} {:016x}", idx, d);
                    }
                }
                agg.evals += out.evals;
                agg.undecided += out.undecided;
                for (k, v) in out.counters {
                    if k.starts_with("max:") {
                        let e = agg.counters.entry(k).or_insert(0);
                        if v > *e {
                            *e = v;
                        }
                    } else {
                        *agg.counters.entry(k).or_insert(0) += v;
                    }
                }
                for h in out.obs {
                    obs.insert(h);
                }
                for v in out.violations {
                    nviol += 1;
                    if nviol <= 200 {
                        let mut o = stdout.lock();
                        let _ = writeln!(
                            o,
                            "V {}",
                            json!({"idx": idx, "sig": v.sig, "what": v.what, "witness": v.witness})
                        );
                    }
                }
                if let Some(s) = out.sample {
                    // keep the first few and a sparse selection afterwards
                    if samples < 2 || (samples < 4 && ncases % 97 == 0) {
                        samples += 1;
                        let mut o = stdout.lock();
                        let _ = writeln!(o, "X {}", json!({"idx": idx, "case": s}));
                    }
                }
                if only.is_some() {
                    break;
                }
                idx += nshards;
            }
            // summary
            let mut o = stdout.lock();
            let mut hs: Vec<u64> = obs.into_iter().collect();
            hs.sort_unstable();
            // hashes in chunks (hex)
            for chunk in hs.chunks(2000) {
                let mut line = String::from("H ");
                for h in chunk {
                    line.push_str(&format!("{:016x}", h));
                }
                let _ = writeln!(o, "{}", line);
            }
            let counters: Map<String, Value> = agg
                .counters
                .iter()
                .map(|(k, v)| (k.clone(), json!(v)))
                .collect();
            let _ = writeln!(
                o,
                "S {}",
                json!({"cases": ncases, "evals": agg.evals, "undecided": agg.undecided,
                       "violations": nviol, "harness_errors": harness_errors,
                       "counters": counters, "last_idx": idx})
            );
            let _ = o.flush();
            *done2.lock().unwrap() = true;
        })
        .expect("spawn");

    // watchdog on the main thread
    loop {
        std::thread::sleep(Duration::from_millis(50));
        if *done.lock().unwrap() {
            break;
        }
        if handle.is_finished() {
            break;
        }
        let cur = CUR_CASE.load(Ordering::SeqCst);
        if cur != u64::MAX {
            let started = CUR_START_MS.load(Ordering::SeqCst);
            let case_timeout_ms = CUR_BUDGET_MS.load(Ordering::SeqCst);
            if now_ms(t0).saturating_sub(started) > case_timeout_ms {
                // still the same case?
                if CUR_CASE.load(Ordering::SeqCst) == cur {
                    let stdout = std::io::stdout();
                    let mut o = stdout.lock();
                    let _ = writeln!(o, "T {}", cur);
                    let _ = o.flush();
                    std::process::exit(3);
                }
            }
        }
    }
    let _ = handle.join();
    0
}

// ---------------------------------------------------------------------------
// Supervisor

#[derive(Default)]
struct Collected {
    cases: u64,
    evals: u64,
    undecided: u64,
    harness_errors: u64,
    counters: BTreeMap<String, u64>,
    obs: HashSet<u64>,
    violations: Vec<(u64, Violation)>,
    samples: Vec<Value>,
    nviol_total: u64,
    /// occurrences per signature (every one is counted; only the first
    /// MAX_WITNESSES_PER_SIG witnesses of a signature are kept, so that a frequent
    /// known finding cannot crowd out a rare new one)
    sig_counts: BTreeMap<String, u64>,
    digests: BTreeMap<u64, u64>,
}

const MAX_WITNESSES_PER_SIG: u64 = 200;

enum WorkerEnd {
    Finished,
    Timeout(u64),
    Died(u64, String),
}

fn spawn_worker(
    exe: &str,
    mon: &Monitor,
    tier: Tier,
    seed: u64,
    shard: u64,
    nshards: u64,
    start_at: Option<u64>,
) -> std::process::Child {
    // address-space limit so that a runaway allocation kills one worker, not the box
    // (sanitizer builds reserve terabytes of address space: no limit there)
    let limit = if std::env::var("VERIF_NO_ULIMIT").is_ok() {
        ""
    } else {
        "ulimit -v 12000000; "
    };
    let mut cmdline = format!(
        "{}exec {} worker {} {} {} {} {}",
        limit,
        exe,
        mon.id,
        tier.name(),
        seed,
        shard,
        nshards
    );
    if let Some(s) = start_at {
        cmdline.push_str(&format!(" --start {}", s));
    }
    Command::new("sh")
        .arg("-c")
        .arg(cmdline)
        .stdin(Stdio::null())
        .stdout(Stdio::piped())
        .stderr(Stdio::piped())
        .spawn()
        .expect("spawn worker")
}

fn parse_worker_output(
    child: &mut std::process::Child,
    col: &Mutex<Collected>,
) -> (WorkerEnd, String) {
    let stdout = child.stdout.take().unwrap();
    let stderr = child.stderr.take().unwrap();
    let errh = std::thread::spawn(move || {
        let mut s = String::new();
        let mut r = BufReader::new(stderr);
        let mut line = String::new();
        while let Ok(n) = r.read_line(&mut line) {
            if n == 0 {
                break;
            }
            if s.len() < 4000 {
                s.push_str(&line);
            }
            line.clear();
        }
        s
    });
    let mut last_b: Option<u64> = None;
    let mut timeout: Option<u64> = None;
    let mut got_summary = false;
    let r = BufReader::new(stdout);
    for line in r.lines() {
        let line = match line {
            Ok(l) => l,
            Err(_) => break,
        };
        if line.len() < 2 {
            continue;
        }
        let (tag, rest) = line.split_at(2);
        match tag {
            "B " => last_b = rest.trim().parse().ok(),
            "T " => timeout = rest.trim().parse().ok(),
            "V " => {
                if let Ok(v) = serde_json::from_str::<Value>(rest) {
                    let mut c = col.lock().unwrap();
                    c.nviol_total += 1;
                    let sig = v["sig"].as_str().unwrap_or("").to_string();
                    let n = {
                        let e = c.sig_counts.entry(sig).or_insert(0);
                        *e += 1;
                        *e
                    };
                    if n <= MAX_WITNESSES_PER_SIG {
                        c.violations.push((
                            v["idx"].as_u64().unwrap_or(0),
                            Violation {
                                sig: v["sig"].as_str().unwrap_or("").to_string(),
                                what: v["what"].as_str().unwrap_or("").to_string(),
                                witness: v["witness"].clone(),
                            },
                        ));
                    }
                }
            }
            "X " => {
                if let Ok(v) = serde_json::from_str::<Value>(rest) {
                    let mut c = col.lock().unwrap();
                    if c.samples.len() < 6 {
                        c.samples.push(v);
                    }
                }
            }
            "D " => {
                let mut it = rest.split_whitespace();
                if let (Some(i), Some(h)) = (it.next(), it.next()) {
                    if let (Ok(i), Ok(h)) = (i.parse::<u64>(), u64::from_str_radix(h, 16)) {
                        col.lock().unwrap().digests.insert(i, h);
                    }
                }
            }
            "E " => {
                let mut c = col.lock().unwrap();
                c.harness_errors += 1;
                eprintln!("harness error: {}", rest);
            }
            "H " => {
                let mut c = col.lock().unwrap();
                let b = rest.trim().as_bytes();
                for ch in b.chunks(16) {
                    if ch.len() == 16 {
                        if let Ok(s) = std::str::from_utf8(ch) {
                            if let Ok(h) = u64::from_str_radix(s, 16) {
                                c.obs.insert(h);
                            }
                        }
                    }
                }
            }
            "S " => {
                if let Ok(v) = serde_json::from_str::<Value>(rest) {
                    got_summary = true;
                    let mut c = col.lock().unwrap();
                    c.cases += v["cases"].as_u64().unwrap_or(0);
                    c.evals += v["evals"].as_u64().unwrap_or(0);
                    c.undecided += v["undecided"].as_u64().unwrap_or(0);
                    if let Some(m) = v["counters"].as_object() {
                        for (k, val) in m {
                            let n = val.as_u64().unwrap_or(0);
                            if k.starts_with("max:") {
                                let e = c.counters.entry(k.clone()).or_insert(0);
                                if n > *e {
                                    *e = n;
                                }
                            } else {
                                *c.counters.entry(k.clone()).or_insert(0) += n;
                            }
                        }
                    }
                }
            }
            _ => {}
        }
    }
    let status = child.wait();
    let errtxt = errh.join().unwrap_or_default();
    if let Some(t) = timeout {
        return (WorkerEnd::Timeout(t), errtxt);
    }
    if got_summary {
        return (WorkerEnd::Finished, errtxt);
    }
    let desc = match status {
        Ok(s) => format!("{}", s),
        Err(e) => format!("wait error {}", e),
    };
    match last_b {
        Some(i) => (WorkerEnd::Died(i, desc), errtxt),
        None => (WorkerEnd::Died(u64::MAX, desc), errtxt),
    }
}

/// Like parse_worker_output, but kills the worker once it announces a case index >= `stop_at`.
fn parse_worker_output_until(
    child: &mut std::process::Child,
    col: &Mutex<Collected>,
    stop_at: u64,
) -> (WorkerEnd, String) {
    let stdout = child.stdout.take().unwrap();
    let r = BufReader::new(stdout);
    for line in r.lines() {
        let Ok(line) = line else { break };
        if line.len() < 2 {
            continue;
        }
        let (tag, rest) = line.split_at(2);
        match tag {
            "B " => {
                if rest.trim().parse::<u64>().map(|i| i >= stop_at).unwrap_or(false) {
                    break;
                }
            }
            "D " => {
                let mut it = rest.split_whitespace();
                if let (Some(i), Some(h)) = (it.next(), it.next()) {
                    if let (Ok(i), Ok(h)) = (i.parse::<u64>(), u64::from_str_radix(h, 16)) {
                        col.lock().unwrap().digests.insert(i, h);
                    }
                }
            }
            _ => {}
        }
    }
    let _ = child.kill();
    let _ = child.wait();
    (WorkerEnd::Finished, String::new())
}

/// Re-run one case alone with a larger watchdog budget.  Returns what happened.
fn isolate(exe: &str, mon: &Monitor, tier: Tier, seed: u64, idx: u64) -> (WorkerEnd, String, Vec<Violation>) {
    let limit = if std::env::var("VERIF_NO_ULIMIT").is_ok() {
        ""
    } else {
        "ulimit -v 12000000; "
    };
    let cmdline = format!(
        "{}exec {} worker {} {} {} 0 1 --only {} --mult 5",
        limit,
        exe,
        mon.id,
        tier.name(),
        seed,
        idx
    );
    let mut child = Command::new("sh")
        .arg("-c")
        .arg(cmdline)
        .stdin(Stdio::null())
        .stdout(Stdio::piped())
        .stderr(Stdio::piped())
        .spawn()
        .expect("spawn isolated worker");
    let col = Mutex::new(Collected::default());
    let (end, err) = parse_worker_output(&mut child, &col);
    let c = col.into_inner().unwrap();
    (end, err, c.violations.into_iter().map(|(_, v)| v).collect())
}

/// Monitors name the step they are about to take on stderr, so that a process
/// death (which loses all in-process state) can be attributed to a call site:
/// the last step named before the death becomes part of the signature.
pub fn step(label: &str) {
    eprintln!("VERIF_STEP {}", label);
}

fn last_step(err: &str) -> Option<&str> {
    err.lines()
        .filter_map(|l| l.strip_prefix("VERIF_STEP "))
        .last()
        .filter(|l| *l != "-")
}

fn stderr_class(err: &str) -> String {
    let base = stderr_class_base(err);
    match last_step(err) {
        Some(st) => format!("{}:{}", base, st),
        None => base,
    }
}

fn stderr_class_base(err: &str) -> String {
    if err.contains("has overflowed its stack") {
        "stack-overflow".into()
    } else if err.contains("memory allocation of") {
        "alloc-failure".into()
    } else if err.contains("capacity overflow") {
        "capacity-overflow".into()
    } else {
        "other".into()
    }
}

pub struct KnownFindings {
    /// (property, signature) -> description
    pub listed: Vec<(String, String, String)>,
}

pub fn load_known_findings() -> KnownFindings {
    let path = format!("{}/known_findings.json", verif_root());
    let mut listed = Vec::new();
    if let Ok(s) = std::fs::read_to_string(&path) {
        if let Ok(v) = serde_json::from_str::<Value>(&s) {
            if let Some(arr) = v["findings"].as_array() {
                for f in arr {
                    listed.push((
                        f["property"].as_str().unwrap_or("").to_string(),
                        f["signature"].as_str().unwrap_or("").to_string(),
                        f["what"].as_str().unwrap_or("").to_string(),
                    ));
                }
            }
        }
    }
    KnownFindings { listed }
}

pub fn supervisor_main(mon: &'static Monitor, tier: Tier) -> i32 {
    let t0 = Instant::now();
    let seed = env_seed();
    let exe = std::env::current_exe()
        .expect("current_exe")
        .to_string_lossy()
        .to_string();
    let mut plan = (mon.plan)(tier);
    plan.cases = (plan.cases / cases_div()).max(1);
    let leg = std::env::var("VERIF_LEG").ok();
    let ncpu = std::thread::available_parallelism()
        .map(|n| n.get() as u64)
        .unwrap_or(4);
    let nshards = ncpu.min(16).min(plan.cases.max(1));
    let col = Arc::new(Mutex::new(Collected::default()));
    // (kind, idx, description, stderr)
    let incidents: Arc<Mutex<Vec<(String, u64, String, String)>>> = Arc::new(Mutex::new(Vec::new()));

    let mut handles = Vec::new();
    for shard in 0..nshards {
        let col = col.clone();
        let incidents = incidents.clone();
        let exe = exe.clone();
        handles.push(std::thread::spawn(move || {
            let mut start_at: Option<u64> = None;
            let mut restarts = 0;
            loop {
                let mut child = spawn_worker(&exe, mon, tier, seed, shard, nshards, start_at);
                let (end, err) = parse_worker_output(&mut child, &col);
                match end {
                    WorkerEnd::Finished => break,
                    WorkerEnd::Timeout(i) => {
                        incidents
                            .lock()
                            .unwrap()
                            .push(("timeout".into(), i, "watchdog".into(), err));
                        start_at = Some(i + nshards);
                    }
                    WorkerEnd::Died(i, desc) => {
                        incidents
                            .lock()
                            .unwrap()
                            .push(("died".into(), i, desc, err));
                        if i == u64::MAX {
                            break;
                        }
                        start_at = Some(i + nshards);
                    }
                }
                restarts += 1;
                if restarts > 20 {
                    break;
                }
                if t0.elapsed() > Duration::from_secs(plan.time_cap_s + 60) {
                    break;
                }
            }
        }));
    }
    for h in handles {
        let _ = h.join();
    }

    let mut col = std::mem::take(&mut *col.lock().unwrap());
    let incidents = std::mem::take(&mut *incidents.lock().unwrap());
    let mut inconclusive: Vec<String> = Vec::new();

    // Determinism across processes: re-run the digest sample in one fresh process
    // (different HashMap seeds, different allocation history) and compare.
    if !col.digests.is_empty() {
        let col2 = Mutex::new(Collected::default());
        let mut child = spawn_worker(&exe, mon, tier, seed, 0, 1, None);
        // shard 0 of 1 walks all indices from 0; stop it once past the sample
        let _ = &mut child;
        let (_end, _err) = parse_worker_output_until(&mut child, &col2, DIGEST_SAMPLE);
        let second = col2.into_inner().unwrap().digests;
        let mut compared = 0u64;
        for (idx, d1) in &col.digests {
            if let Some(d2) = second.get(idx) {
                compared += 1;
                if d1 != d2 {
                    col.nviol_total += 1;
                    col.violations.push((
                        *idx,
                        Violation {
                            sig: "nondeterministic-across-processes".into(),
                            what: format!("case {} gave different results in two different processes (same input, configuration and widths)", idx),
                            witness: json!({"idx": idx, "seed": seed, "digest_first": format!("{:016x}", d1), "digest_second": format!("{:016x}", d2)}),
                        },
                    ));
                }
            }
        }
        col.counters.insert("cross_process_cases_compared".into(), compared);
    }

    // Examine incidents in isolation (at most a handful; the rest are counted).
    let mut examined = 0;
    for (kind, idx, desc, err) in &incidents {
        if *idx == u64::MAX {
            inconclusive.push(format!("worker failed before its first case: {} {}", desc, crate::textutil::truncate(err, 300)));
            continue;
        }
        if examined >= 6 {
            inconclusive.push(format!("{} at case {} not re-examined (too many incidents)", kind, idx));
            continue;
        }
        examined += 1;
        let (end, err2, viols) = isolate(&exe, mon, tier, seed, *idx);
        for v in viols {
            col.nviol_total += 1;
            col.violations.push((*idx, v));
        }
        match end {
            WorkerEnd::Finished => {
                // did not reproduce alone: load-related, not a verdict
                col.counters
                    .entry("incidents_not_reproduced".into())
                    .and_modify(|e| *e += 1)
                    .or_insert(1);
            }
            WorkerEnd::Timeout(_) => {
                if mon.hang_is_violation {
                    col.nviol_total += 1;
                    col.violations.push((
                        *idx,
                        Violation {
                            sig: "hang:wallclock".into(),
                            what: format!(
                                "case {} did not finish within 5x the per-case budget ({} s) when run alone",
                                idx,
                                plan.case_timeout_s * 5
                            ),
                            witness: json!({"idx": idx, "seed": seed}),
                        },
                    ));
                } else {
                    inconclusive.push(format!("case {} timed out in isolation", idx));
                }
            }
            WorkerEnd::Died(_, d2) => {
                let class = stderr_class(&err2);
                if mon.hang_is_violation {
                    col.nviol_total += 1;
                    col.violations.push((
                        *idx,
                        Violation {
                            sig: format!("abort:{}", class),
                            what: format!(
                                "process died while running case {} alone ({}; first: {} {})",
                                idx,
                                d2,
                                desc,
                                crate::textutil::truncate(err, 200)
                            ),
                            witness: json!({"idx": idx, "seed": seed, "stderr": crate::textutil::truncate(&err2, 500)}),
                        },
                    ));
                } else {
                    inconclusive.push(format!("case {} killed its worker in isolation ({})", idx, d2));
                }
            }
        }
    }

    if col.harness_errors > 0 {
        inconclusive.push(format!("{} harness errors", col.harness_errors));
    }

    // thresholds (a leg only samples the workload: its reach is reported, not judged)
    let thresholds = if leg.is_some() { Vec::new() } else { (mon.thresholds)(tier) };
    for (name, min) in thresholds {
        let have = match name {
            "cases" => col.cases,
            "evals" => col.evals,
            "distinct" => col.obs.len() as u64,
            n => *col.counters.get(n).unwrap_or(&0),
        };
        if have < min {
            inconclusive.push(format!("reach counter {} = {} below minimum {}", name, have, min));
        }
    }

    // known findings / violations
    let known = load_known_findings();
    let root = verif_root();
    let mut by_sig: BTreeMap<String, Vec<&(u64, Violation)>> = BTreeMap::new();
    for v in &col.violations {
        by_sig.entry(v.1.sig.clone()).or_default().push(v);
    }
    let mut new_sigs = 0;
    let mut known_hits = 0;
    let mut lines: Vec<String> = Vec::new();
    for (sig, vs) in &by_sig {
        let listed = known
            .listed
            .iter()
            .find(|(p, s, _)| p == mon.id && s == sig);
        if let Some((_, _, what)) = listed {
            known_hits += 1;
            lines.push(format!(
                "KNOWN-FINDING: property={} {} [{}; {} occurrence(s) this run]",
                mon.id,
                what,
                sig,
                col.sig_counts.get(sig).copied().unwrap_or(0).max(vs.len() as u64)
            ));
            continue;
        }
        new_sigs += 1;
        // pick the smallest witness (by serialized length) as the replay file
        let best = vs
            .iter()
            .min_by_key(|v| v.1.witness.to_string().len())
            .unwrap();
        let dir = format!("{}/replay/{}", root, mon.id);
        let _ = std::fs::create_dir_all(&dir);
        let path = format!("{}/{:016x}.json", dir, hash_str(sig));
        let body = json!({
            "property": mon.id,
            "tier": tier.name(),
            "seed": seed,
            "idx": best.0,
            "signature": sig,
            "what": best.1.what,
            "witness": best.1.witness,
            "occurrences": col.sig_counts.get(sig).copied().unwrap_or(0).max(vs.len() as u64),
        });
        let _ = std::fs::write(&path, serde_json::to_string_pretty(&body).unwrap());
        if new_sigs <= 25 {
            lines.push(format!(
                "VIOLATION property={} replay={}  # {} :: {}",
                mon.id,
                path,
                sig,
                crate::textutil::truncate(&best.1.what, 300)
            ));
        }
    }

    // evidence
    let wall = t0.elapsed().as_secs_f64();
    let mut coverage = Map::new();
    coverage.insert("evaluations".into(), json!(col.evals.max(col.cases)));
    coverage.insert("distinct_nontrivial".into(), json!(col.obs.len()));
    coverage.insert("rule".into(), json!(mon.rule));
    coverage.insert("samples".into(), Value::Array(col.samples.clone()));
    coverage.insert("cases".into(), json!(col.cases));
    coverage.insert("cases_planned".into(), json!(plan.cases));
    coverage.insert("exhaustive".into(), json!(plan.exhaustive && col.cases >= plan.cases));
    coverage.insert("undecided_cases".into(), json!(col.undecided));
    coverage.insert(
        "counters".into(),
        Value::Object(col.counters.iter().map(|(k, v)| (k.clone(), json!(v))).collect()),
    );
    coverage.insert("hooks_enabled".into(), json!(crate::exec::HOOKS_ON));
    coverage.insert("workers".into(), json!(nshards));
    coverage.insert("incidents".into(), json!(incidents.len()));
    coverage.insert("violation_signatures_new".into(), json!(new_sigs));
    coverage.insert("violation_signatures_known".into(), json!(known_hits));
    coverage.insert("inconclusive_reasons".into(), json!(inconclusive));
    let verdict = if new_sigs > 0 {
        "violated"
    } else if !inconclusive.is_empty() {
        "inconclusive"
    } else {
        "held-on-observed"
    };
    coverage.insert("verdict".into(), json!(verdict));
    let evidence = json!({
        "property_id": mon.id,
        "tier": tier.name(),
        "seed": seed as i64,
        "level": "exploration",
        "coverage": Value::Object(coverage),
        "assumptions": mon.assumptions,
        "wall_s": wall,
        "violations": new_sigs,
    });
    let evdir = format!("{}/evidence", root);
    let _ = std::fs::create_dir_all(&evdir);
    let evname = match &leg {
        Some(l) => format!("{}/{}.leg-{}.json", evdir, mon.id, l),
        None => format!("{}/{}.json", evdir, mon.id),
    };
    let _ = std::fs::write(evname, serde_json::to_string_pretty(&evidence).unwrap());

    for l in &lines {
        println!("{}", l);
    }
    println!(
        "{} {} seed={} cases={} evals={} distinct={} new_violation_sigs={} known={} undecided={} wall={:.1}s verdict={}",
        mon.id,
        tier.name(),
        seed,
        col.cases,
        col.evals,
        col.obs.len(),
        new_sigs,
        known_hits,
        col.undecided,
        wall,
        verdict
    );
    if new_sigs > 0 {
        return 1;
    }
    if !inconclusive.is_empty() {
        for r in &inconclusive {
            println!("INCONCLUSIVE property={} {}", mon.id, r);
        }
        return 2;
    }
    0
}

/// Replay a recorded case: `vmon replay <path>`.
pub fn replay_main(path: &str, registry: &[&'static Monitor]) -> i32 {
    crate::exec::install_panic_hook();
    let s = match std::fs::read_to_string(path) {
        Ok(s) => s,
        Err(e) => {
            eprintln!("cannot read {}: {}", path, e);
            return 2;
        }
    };
    let v: Value = match serde_json::from_str(&s) {
        Ok(v) => v,
        Err(e) => {
            eprintln!("bad replay file: {}", e);
            return 2;
        }
    };
    let id = v["property"].as_str().unwrap_or("");
    let mon = match registry.iter().find(|m| m.id == id) {
        Some(m) => *m,
        None => {
            eprintln!("unknown property {}", id);
            return 2;
        }
    };
    let tier = Tier::parse(v["tier"].as_str().unwrap_or("quick")).unwrap_or(Tier::Quick);
    let seed = v["seed"].as_u64().unwrap_or(1);
    let idx = v["idx"].as_u64().unwrap_or(0);
    let res = std::thread::Builder::new()
        .stack_size(8 << 20)
        .spawn(move || {
            let mut out = CaseOut::default();
            (mon.run_case)(seed, idx, tier, &mut out);
            out
        })
        .unwrap()
        .join();
    match res {
        Ok(out) => {
            if out.violations.is_empty() {
                println!("replay {}: case {} of {} holds now", path, idx, id);
                0
            } else {
                for vi in &out.violations {
                    println!(
                        "VIOLATION property={} replay={}  # {} :: {}",
                        id, path, vi.sig, vi.what
                    );
                    println!("{}", serde_json::to_string_pretty(&vi.witness).unwrap());
                }
                1
            }
        }
        Err(_) => {
            eprintln!("harness error during replay");
            2
        }
    }
}
