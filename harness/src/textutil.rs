//! Display width and alphabets.

use unicode_width::{UnicodeWidthChar, UnicodeWidthStr};

pub fn cw(c: char) -> usize {
    UnicodeWidthChar::width(c).unwrap_or(0)
}

/// Sum of per-character widths.
pub fn sw_chars(s: &str) -> usize {
    s.chars().map(cw).sum()
}

/// String width as unicode-width computes it for the whole string.
pub fn sw_str(s: &str) -> usize {
    UnicodeWidthStr::width(s)
}

/// The width used for "over-wide" verdicts: the smaller of the two measures, so
/// that sequences on which they disagree can never raise a false alarm.
pub fn sw_min(s: &str) -> usize {
    sw_chars(s).min(sw_str(s))
}

/// Width used where the monitor needs one number (alphabets used by the
/// generators make both measures agree).
pub fn sw(s: &str) -> usize {
    sw_str(s)
}

pub const BOX_CHARS: [char; 5] = ['─', '│', '┬', '┴', '┼'];

pub fn is_box(c: char) -> bool {
    BOX_CHARS.contains(&c)
}
pub fn is_rule_char(c: char) -> bool {
    matches!(c, '─' | '┬' | '┴' | '┼')
}

/// Wide letters in the token alphabet.
pub const WIDE: [char; 6] = ['漢', '字', '日', '本', '語', '文'];
/// Combining marks in the token alphabet (zero width).
pub const COMB: [char; 2] = ['\u{301}', '\u{308}'];

/// Token alphabet T: ASCII letters, the wide letters, the combining marks.
pub fn in_t(c: char) -> bool {
    c.is_ascii_alphabetic() || WIDE.contains(&c) || COMB.contains(&c)
}

pub fn t_proj(s: &str) -> String {
    s.chars().filter(|&c| in_t(c)).collect()
}

pub fn nonspace(s: &str) -> String {
    s.chars().filter(|c| !c.is_whitespace()).collect()
}

/// Map superscript digits back to ASCII digits.
pub fn unsuper(c: char) -> char {
    match c {
        '⁰' => '0',
        '¹' => '1',
        '²' => '2',
        '³' => '3',
        '⁴' => '4',
        '⁵' => '5',
        '⁶' => '6',
        '⁷' => '7',
        '⁸' => '8',
        '⁹' => '9',
        c => c,
    }
}

pub fn rstrip(s: &str) -> &str {
    s.trim_end_matches(' ')
}

/// Short, printable rendition of bytes for evidence samples / reports.
pub fn show_bytes(b: &[u8], max: usize) -> String {
    let s = String::from_utf8_lossy(b);
    let mut out = String::new();
    for (n, c) in s.chars().enumerate() {
        if n >= max {
            out.push_str("…");
            break;
        }
        out.push(c);
    }
    out
}

pub fn truncate(s: &str, max: usize) -> String {
    if s.chars().count() <= max {
        s.to_string()
    } else {
        let mut o: String = s.chars().take(max).collect();
        o.push('…');
        o
    }
}
