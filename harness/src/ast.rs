//! Document AST used by the generators, and its serialisation to HTML bytes with
//! controllable source formatting.

use crate::rng::Rng;

#[derive(Clone, Debug, PartialEq, Eq)]
pub enum Node {
    /// A run of non-whitespace text.
    Word(String),
    /// Collapsible whitespace (at least one whitespace character in the source).
    Space,
    /// Literal text (used inside `<pre>`); serialised with escaping only.
    Raw(String),
    Comment(String),
    El(El),
}

#[derive(Clone, Debug, PartialEq, Eq)]
pub struct El {
    pub tag: String,
    pub attrs: Vec<(String, String)>,
    pub children: Vec<Node>,
}

impl El {
    pub fn new(tag: &str) -> El {
        El {
            tag: tag.to_string(),
            attrs: Vec::new(),
            children: Vec::new(),
        }
    }
    pub fn with(tag: &str, children: Vec<Node>) -> El {
        El {
            tag: tag.to_string(),
            attrs: Vec::new(),
            children,
        }
    }
    pub fn attr(mut self, k: &str, v: &str) -> El {
        self.attrs.push((k.to_string(), v.to_string()));
        self
    }
    pub fn set_attr(&mut self, k: &str, v: &str) {
        if let Some(a) = self.attrs.iter_mut().find(|(n, _)| n == k) {
            a.1 = v.to_string();
        } else {
            self.attrs.push((k.to_string(), v.to_string()));
        }
    }
    pub fn get_attr(&self, k: &str) -> Option<&str> {
        self.attrs
            .iter()
            .find(|(n, _)| n == k)
            .map(|(_, v)| v.as_str())
    }
    pub fn node(self) -> Node {
        Node::El(self)
    }
}

pub fn is_void(tag: &str) -> bool {
    matches!(tag, "br" | "img" | "hr" | "meta" | "link" | "input" | "col")
}

pub fn is_block_tag(tag: &str) -> bool {
    matches!(
        tag,
        "p" | "div"
            | "blockquote"
            | "ul"
            | "ol"
            | "li"
            | "h1"
            | "h2"
            | "h3"
            | "h4"
            | "h5"
            | "h6"
            | "dl"
            | "dt"
            | "dd"
            | "pre"
            | "table"
            | "thead"
            | "tbody"
            | "tfoot"
            | "tr"
            | "td"
            | "th"
            | "caption"
    )
}

fn is_block_node(n: &Node) -> bool {
    matches!(n, Node::El(e) if is_block_tag(&e.tag))
}

/// Source formatting choices.  `canonical()` is deterministic and minimal; the
/// varied form draws every choice from its RNG, so two serialisations of the
/// same AST differ only in CSS/HTML-insignificant formatting.
#[derive(Clone, Debug)]
pub struct Fmt {
    pub rng: Option<Rng>,
    /// replace each Space by a random non-empty whitespace run
    pub vary_space: bool,
    /// whitespace / newlines / indentation between block-level siblings
    pub block_gaps: bool,
    /// comments adjacent to whitespace
    pub comments: bool,
    /// wrap inline runs in <span>
    pub span_wrap: bool,
    /// span wrapping may start / end on collapsible white space (<span> b </span>)
    pub span_edges: bool,
    /// write nothing between the tags of an empty block container (the random choices
    /// are still drawn, so that the rest of the document comes out the same)
    pub no_gap_in_empty: bool,
    /// omit optional end tags, vary attribute quoting
    pub tag_style: bool,
}

impl Fmt {
    pub fn canonical() -> Fmt {
        Fmt {
            rng: None,
            vary_space: false,
            block_gaps: false,
            comments: false,
            span_wrap: false,
            span_edges: false,
            no_gap_in_empty: false,
            tag_style: false,
        }
    }
    pub fn varied(rng: Rng) -> Fmt {
        Fmt {
            rng: Some(rng),
            vary_space: true,
            block_gaps: true,
            comments: true,
            span_wrap: true,
            span_edges: false,
            no_gap_in_empty: false,
            tag_style: true,
        }
    }
    /// Formatting variation that keeps the DOM identical except for
    /// whitespace-only text between blocks (no span wrapping, no comments).
    pub fn layout_only(rng: Rng) -> Fmt {
        Fmt {
            rng: Some(rng),
            vary_space: true,
            block_gaps: true,
            comments: false,
            span_wrap: false,
            span_edges: false,
            no_gap_in_empty: false,
            tag_style: true,
        }
    }
    pub fn chance_pub(&mut self, num: usize, den: usize) -> bool {
        self.chance(num, den)
    }
    fn chance(&mut self, num: usize, den: usize) -> bool {
        match &mut self.rng {
            Some(r) => r.chance(num, den),
            None => false,
        }
    }
    fn below(&mut self, n: usize) -> usize {
        match &mut self.rng {
            Some(r) => r.below(n),
            None => 0,
        }
    }
}

const WS_RUNS: [&str; 9] = [
    " ", "\n", "\t", "  ", " \n ", "\r\n", "\x0c", "\n\t\t", "   \n",
];

pub fn escape_text(s: &str, out: &mut String) {
    for c in s.chars() {
        match c {
            '<' => out.push_str("&lt;"),
            '>' => out.push_str("&gt;"),
            '&' => out.push_str("&amp;"),
            c => out.push(c),
        }
    }
}

fn escape_attr(s: &str, out: &mut String, quote: char) {
    for c in s.chars() {
        match c {
            '&' => out.push_str("&amp;"),
            '"' if quote == '"' => out.push_str("&quot;"),
            '\'' if quote == '\'' => out.push_str("&#39;"),
            c => out.push(c),
        }
    }
}

fn attr_unquotable(v: &str) -> bool {
    !v.is_empty()
        && v.chars()
            .all(|c| c.is_ascii_alphanumeric() || c == '-' || c == '_' || c == '.' || c == '/')
}

/// End tags that may always be omitted when followed by a sibling of the same
/// family or by the parent's end.
fn end_tag_optional(tag: &str) -> bool {
    matches!(
        tag,
        "li" | "td" | "th" | "tr" | "dt" | "dd" | "tbody" | "thead"
    )
}

pub fn serialize(nodes: &[Node], fmt: &mut Fmt) -> Vec<u8> {
    let mut out = String::new();
    ser_children(nodes, true, fmt, &mut out, 0, false);
    out.into_bytes()
}

fn emit_space(fmt: &mut Fmt, out: &mut String) {
    let comment_before = fmt.comments && fmt.chance(1, 6);
    let comment_after = fmt.comments && fmt.chance(1, 6);
    if comment_before {
        out.push_str("<!--c-->");
    }
    if fmt.vary_space {
        let i = fmt.below(WS_RUNS.len());
        out.push_str(WS_RUNS[i]);
    } else {
        out.push(' ');
    }
    if fmt.comments && fmt.chance(1, 8) {
        // a comment in the middle of the run (white space on both sides of it)
        out.push_str("<!--m-->");
        out.push(' ');
    }
    if comment_after {
        out.push_str("<!-- d -->");
    }
}

fn emit_gap(fmt: &mut Fmt, out: &mut String, depth: usize) {
    if !fmt.block_gaps {
        return;
    }
    match fmt.below(5) {
        0 => {}
        1 => out.push('\n'),
        2 => {
            out.push('\n');
            for _ in 0..depth {
                out.push_str("  ");
            }
        }
        3 => out.push_str(" \t"),
        _ => {
            out.push('\n');
            if fmt.comments && fmt.chance(1, 3) {
                out.push_str("<!-- gap -->\n");
            }
        }
    }
}

/// Does the subtree hold anything that renders (a word, non-blank raw text, an image)?
fn has_renderable(nodes: &[Node]) -> bool {
    nodes.iter().any(|n| match n {
        Node::Word(_) => true,
        Node::Raw(t) => !t.trim().is_empty(),
        Node::El(e) => e.tag == "img" || e.tag == "br" || has_renderable(&e.children),
        _ => false,
    })
}

fn ser_children(
    nodes: &[Node],
    blockish_container: bool,
    fmt: &mut Fmt,
    out: &mut String,
    depth: usize,
    in_pre: bool,
) {
    // gaps are allowed only between two block-level siblings (or at the
    // edges of a container whose children are all block-level)
    let all_block = !nodes.is_empty() && nodes.iter().all(is_block_node);
    let gaps_ok = blockish_container && !in_pre;
    if nodes.is_empty() && gaps_ok {
        // between the start and the end tag of an empty block container
        if fmt.no_gap_in_empty {
            let mut scratch = String::new();
            emit_gap(fmt, &mut scratch, depth.saturating_sub(1));
        } else {
            emit_gap(fmt, out, depth.saturating_sub(1));
        }
        return;
    }
    // (attribution mode: a container without anything renderable gets no gaps at all)
    let hollow = fmt.no_gap_in_empty && !has_renderable(nodes);
    let mut i = 0;
    // an element whose optional end tag was omitted swallows what follows it,
    // so no gap may be written right after it
    let mut prev_open = false;
    while i < nodes.len() {
        let n = &nodes[i];
        if gaps_ok && !prev_open {
            let prev_block = if i == 0 {
                all_block
            } else {
                is_block_node(&nodes[i - 1])
            };
            if prev_block && is_block_node(n) {
                // (attribution mode: also no gap next to a block sibling that renders nothing)
                let hollow_neighbour = fmt.no_gap_in_empty
                    && (!has_renderable(std::slice::from_ref(n)) || (i > 0 && !has_renderable(std::slice::from_ref(&nodes[i - 1]))));
                if hollow || hollow_neighbour {
                    let mut scratch = String::new();
                    emit_gap(fmt, &mut scratch, depth);
                } else {
                    emit_gap(fmt, out, depth);
                }
            }
        }
        // span wrapping of an inline run
        // (a run of nothing but white space is not wrapped: between the tags of a list
        // or table it is not inline content at all)
        let ws_only = matches!(n, Node::Raw(t) if t.trim().is_empty());
        if fmt.span_wrap && !in_pre && !ws_only && !is_block_node(n) && (fmt.span_edges || !matches!(n, Node::Space)) {
            if fmt.chance(1, 12) {
                // extend over following inline, non-edge-space nodes
                let mut j = i + 1;
                let maxlen = 1 + fmt.below(4);
                while j < nodes.len() && j - i < maxlen && !is_block_node(&nodes[j]) {
                    j += 1;
                }
                // do not end the run on a Space (keeps edge whitespace outside)
                while !fmt.span_edges && j > i + 1 && matches!(nodes[j - 1], Node::Space) {
                    j -= 1;
                }
                out.push_str("<span>");
                for m in &nodes[i..j] {
                    ser_node(m, fmt, out, depth, in_pre);
                }
                out.push_str("</span>");
                i = j;
                prev_open = false;
                continue;
            }
        }
        prev_open = ser_node(n, fmt, out, depth, in_pre);
        i += 1;
    }
    if gaps_ok && all_block && !prev_open {
        let hollow_last = fmt.no_gap_in_empty && nodes.last().map(|n| !has_renderable(std::slice::from_ref(n))).unwrap_or(false);
        if hollow || hollow_last {
            let mut scratch = String::new();
            emit_gap(fmt, &mut scratch, depth.saturating_sub(1));
        } else {
            emit_gap(fmt, out, depth.saturating_sub(1));
        }
    }
}

/// Returns true if the node is an element whose end tag was omitted.
fn ser_node(n: &Node, fmt: &mut Fmt, out: &mut String, depth: usize, in_pre: bool) -> bool {
    match n {
        Node::Word(w) => escape_text(w, out),
        Node::Space => {
            if in_pre {
                out.push(' ');
            } else {
                emit_space(fmt, out)
            }
        }
        Node::Raw(t) => escape_text(t, out),
        Node::Comment(c) => {
            out.push_str("<!--");
            out.push_str(c);
            out.push_str("-->");
        }
        Node::El(e) => return ser_el(e, fmt, out, depth, in_pre),
    }
    false
}

fn ser_el(e: &El, fmt: &mut Fmt, out: &mut String, depth: usize, in_pre: bool) -> bool {
    out.push('<');
    if fmt.tag_style && fmt.chance(1, 10) {
        out.push_str(&e.tag.to_ascii_uppercase());
    } else {
        out.push_str(&e.tag);
    }
    for (k, v) in &e.attrs {
        out.push(' ');
        out.push_str(k);
        let style = if fmt.tag_style { fmt.below(3) } else { 0 };
        if style == 2 && attr_unquotable(v) {
            out.push('=');
            out.push_str(v);
        } else if style == 1 && !v.contains('\'') {
            out.push_str("='");
            escape_attr(v, out, '\'');
            out.push('\'');
        } else {
            out.push_str("=\"");
            escape_attr(v, out, '"');
            out.push('"');
        }
    }
    out.push('>');
    if is_void(&e.tag) {
        return false;
    }
    let pre = in_pre || e.tag == "pre";
    if e.tag == "pre" {
        // The parser drops one newline right after <pre>; protect content that
        // starts with a newline by always emitting that sacrificial newline.
        out.push('\n');
    }
    let blockish = is_block_tag(&e.tag) && !pre;
    ser_children(&e.children, blockish, fmt, out, depth + 1, pre);
    if fmt.tag_style && end_tag_optional(&e.tag) && fmt.chance(1, 3) {
        // omitted end tag (the generator only puts these where the next thing is
        // a sibling of the same family or the parent's end tag)
        return true;
    }
    out.push_str("</");
    out.push_str(&e.tag);
    out.push('>');
    false
}

// ---------------------------------------------------------------------------
// Ground-truth helpers over the AST

/// Visit every element (pre-order).
pub fn for_each_el<'a>(nodes: &'a [Node], f: &mut dyn FnMut(&'a El, &[&'a El])) {
    fn rec<'a>(nodes: &'a [Node], path: &mut Vec<&'a El>, f: &mut dyn FnMut(&'a El, &[&'a El])) {
        for n in nodes {
            if let Node::El(e) = n {
                f(e, path);
                path.push(e);
                rec(&e.children, path, f);
                path.pop();
            }
        }
    }
    let mut path = Vec::new();
    rec(nodes, &mut path, f);
}

pub fn for_each_el_mut(nodes: &mut [Node], f: &mut dyn FnMut(&mut El)) {
    for n in nodes {
        if let Node::El(e) = n {
            f(e);
            for_each_el_mut(&mut e.children, f);
        }
    }
}

pub fn has_tag(nodes: &[Node], tag: &str) -> bool {
    let mut found = false;
    for_each_el(nodes, &mut |e, _| {
        if e.tag == tag {
            found = true;
        }
    });
    found
}

pub fn count_tag(nodes: &[Node], tag: &str) -> usize {
    let mut n = 0;
    for_each_el(nodes, &mut |e, _| {
        if e.tag == tag {
            n += 1;
        }
    });
    n
}

/// All words of the AST in document order (img alt words included when the
/// image has a src).
pub fn words(nodes: &[Node]) -> Vec<String> {
    let mut out = Vec::new();
    fn rec(nodes: &[Node], out: &mut Vec<String>) {
        for n in nodes {
            match n {
                Node::Word(w) => out.push(w.clone()),
                Node::Raw(t) => {
                    for w in t.split_whitespace() {
                        out.push(w.to_string());
                    }
                }
                Node::El(e) => {
                    if e.tag == "img" {
                        if e.get_attr("src").map(|s| !s.is_empty()).unwrap_or(false) {
                            if let Some(alt) = e.get_attr("alt") {
                                for w in alt.split_whitespace() {
                                    out.push(w.to_string());
                                }
                            }
                        }
                    }
                    rec(&e.children, out)
                }
                _ => {}
            }
        }
    }
    rec(nodes, &mut out);
    out
}

/// Remove every attribute named `key`.
pub fn strip_attr(nodes: &mut [Node], key: &str) {
    for_each_el_mut(nodes, &mut |e| e.attrs.retain(|(k, _)| k != key));
}

/// Number of nodes (for size caps / shrinking).
pub fn size(nodes: &[Node]) -> usize {
    let mut n = 0;
    for x in nodes {
        n += 1;
        if let Node::El(e) = x {
            n += size(&e.children);
        }
    }
    n
}
