//! vmon — runtime monitors for jugglerchris/rust-html2text.
//!
//!   vmon check <ID> <quick|thorough>      supervisor: run the workload, judge, write evidence
//!   vmon worker <ID> <tier> <seed> <shard> <nshards> [--start N] [--only N] [--mult M]
//!   vmon replay <path>                    re-run a recorded violating case
//!   vmon one <ID> <tier> <seed> <idx>     run one case verbosely (debugging)
//!   vmon list                             list monitors

mod ast;
mod exec;
mod gen;
mod mon;
mod odom;
mod rng;
mod run;
mod textutil;

use run::{Monitor, Tier};

fn registry() -> Vec<&'static Monitor> {
    mon::all()
}

fn find(id: &str) -> Option<&'static Monitor> {
    registry().into_iter().find(|m| m.id == id)
}

fn main() {
    let args: Vec<String> = std::env::args().collect();
    let code = real_main(&args);
    std::process::exit(code);
}

fn real_main(args: &[String]) -> i32 {
    if args.len() < 2 {
        eprintln!("usage: vmon check|worker|replay|one|list ...");
        return 2;
    }
    match args[1].as_str() {
        "list" => {
            for m in registry() {
                println!("{} {}", m.id, m.title);
            }
            0
        }
        "check" => {
            if args.len() < 4 {
                eprintln!("usage: vmon check <ID> <quick|thorough>");
                return 2;
            }
            let Some(m) = find(&args[2]) else {
                eprintln!("unknown property {}", args[2]);
                return 2;
            };
            let Some(t) = Tier::parse(&args[3]) else {
                eprintln!("unknown tier {}", args[3]);
                return 2;
            };
            run::supervisor_main(m, t)
        }
        "worker" => {
            if args.len() < 7 {
                eprintln!("usage: vmon worker <ID> <tier> <seed> <shard> <nshards>");
                return 2;
            }
            let Some(m) = find(&args[2]) else { return 2 };
            let Some(t) = Tier::parse(&args[3]) else { return 2 };
            let seed: u64 = args[4].parse().unwrap_or(1);
            let mut shard: u64 = args[5].parse().unwrap_or(0);
            let nshards: u64 = args[6].parse().unwrap_or(1).max(1);
            let mut only = None;
            let mut mult = 1;
            let mut i = 7;
            while i < args.len() {
                match args[i].as_str() {
                    "--start" => {
                        shard = args[i + 1].parse().unwrap_or(shard);
                        i += 2;
                    }
                    "--only" => {
                        only = args[i + 1].parse().ok();
                        i += 2;
                    }
                    "--mult" => {
                        mult = args[i + 1].parse().unwrap_or(1);
                        i += 2;
                    }
                    _ => i += 1,
                }
            }
            run::worker_main(m, t, seed, shard, nshards, only, mult)
        }
        "replay" => {
            if args.len() < 3 {
                eprintln!("usage: vmon replay <path>");
                return 2;
            }
            run::replay_main(&args[2], &registry())
        }
        "one" => {
            if args.len() < 6 {
                eprintln!("usage: vmon one <ID> <tier> <seed> <idx>");
                return 2;
            }
            let Some(m) = find(&args[2]) else { return 2 };
            let Some(t) = Tier::parse(&args[3]) else { return 2 };
            let seed: u64 = args[4].parse().unwrap_or(1);
            let idx: u64 = args[5].parse().unwrap_or(0);
            exec::install_panic_hook();
            let res = std::thread::Builder::new()
                .stack_size(8 << 20)
                .spawn(move || {
                    let mut out = run::CaseOut::default();
                    (m.run_case)(seed, idx, t, &mut out);
                    out
                })
                .unwrap()
                .join();
            match res {
                Ok(out) => {
                    println!("evals={} undecided={}", out.evals, out.undecided);
                    println!("counters={:?}", out.counters);
                    if let Some(s) = &out.sample {
                        println!("sample={}", serde_json::to_string_pretty(s).unwrap());
                    }
                    for v in &out.violations {
                        println!("VIOLATION sig={} what={}", v.sig, v.what);
                        println!("{}", serde_json::to_string_pretty(&v.witness).unwrap());
                    }
                    if out.violations.is_empty() {
                        0
                    } else {
                        1
                    }
                }
                Err(_) => {
                    eprintln!("harness error");
                    2
                }
            }
        }
        _ => {
            eprintln!("unknown command {}", args[1]);
            2
        }
    }
}
