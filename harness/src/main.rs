//! vmon — runtime monitors for jugglerchris/rust-html2text.
//!
//!   vmon check <ID> <quick|thorough>      supervisor: run the workload, judge, write evidence
//!   vmon worker <ID> <tier> <seed> <shard> <nshards> [--start N] [--only N] [--mult M]
//!   vmon replay <path>                    re-run a recorded violating case
//!   vmon one <ID> <tier> <seed> <idx>     run one case verbosely (debugging)
//!   vmon list                             list monitors

mod ast;
mod exec;
mod gen;
mod mon;
mod odom;
mod rng;
mod run;
mod shrink;
mod textutil;

use run::{Monitor, Tier};

fn registry() -> Vec<&'static Monitor> {
    mon::all()
}

fn find(id: &str) -> Option<&'static Monitor> {
    registry().into_iter().find(|m| m.id == id)
}

/// `<deco>[+opt[=v]...]` -> configuration (debugging commands).
fn parse_cfg(spec: &str) -> exec::Cfg {
    let mut parts = spec.split('+');
    let deco = match parts.next().unwrap_or("plain") {
        "rich" => exec::Deco::Rich,
        "trivial" => exec::Deco::Trivial,
        "plain_nd" => exec::Deco::PlainNoDecorate,
        "custom" => exec::Deco::Custom(exec::CustomSpec::ascii()),
        _ => exec::Deco::Plain,
    };
    let mut cfg = exec::Cfg::new(deco);
    for p in parts {
        let (k, v) = match p.split_once('=') {
            Some((k, v)) => (k, Some(v)),
            None => (p, None),
        };
        let n = v.and_then(|x| x.parse::<usize>().ok());
        match k {
            "overflow" => cfg.overflow = true,
            "pad" => cfg.pad = true,
            "raw" => cfg.raw = true,
            "noborders" => cfg.no_borders = true,
            "nolinkwrap" => cfg.no_link_wrap = true,
            "decorate" => cfg.decorate = true,
            "doccss" => cfg.use_doc_css = true,
            "min" => cfg.min_wrap = n,
            "max" => cfg.max_wrap = n,
            "footnotes" => cfg.footnotes = Some(v != Some("false")),
            "strikeout" => cfg.strikeout = Some(v != Some("false")),
            "css" => cfg.css.push((exec::Origin::User, v.unwrap_or("").to_string())),
            "agentcss" => cfg.css.push((exec::Origin::Agent, v.unwrap_or("").to_string())),
            _ => eprintln!("unknown option {}", k),
        }
    }
    cfg
}

fn main() {
    let args: Vec<String> = std::env::args().collect();
    let code = real_main(&args);
    std::process::exit(code);
}

fn real_main(args: &[String]) -> i32 {
    if args.len() < 2 {
        eprintln!("usage: vmon check|worker|replay|one|list ...");
        return 2;
    }
    match args[1].as_str() {
        "render" => {
            // vmon render <deco>[+opt...] <width>   (HTML on stdin; debugging aid)
            use std::io::Read;
            let spec = args.get(2).cloned().unwrap_or_else(|| "plain".into());
            let width: usize = args.get(3).and_then(|s| s.parse().ok()).unwrap_or(80);
            let cfg = parse_cfg(&spec);
            let mut input = Vec::new();
            std::io::stdin().read_to_end(&mut input).unwrap();
            exec::install_panic_hook();
            if spec.contains("lines") || matches!(cfg.deco, exec::Deco::Rich) {
                match exec::render_lines(&cfg, &input, width) {
                    exec::Outcome::Ok(ls) => {
                        for l in ls {
                            println!("{:?}", l);
                        }
                    }
                    o => println!("{}", o.kind()),
                }
            }
            let t = exec::render_string_traced(&cfg, &input, width);
            match &t.out {
                exec::Outcome::Ok(s) => print!("{}", s),
                o => println!("{}", o.kind()),
            }
            for e in t.events.iter().filter(|e| matches!(e, exec::Event::TableLayout { .. })) {
                eprintln!("{:?}", e);
            }
            0
        }
        "staged" => {
            // vmon staged <deco>[+opt...] <width>   parse_html -> dom_to_render_tree -> render_to_string(clone) (debugging aid)
            use std::io::Read;
            let spec = args.get(2).cloned().unwrap_or_else(|| "plain".into());
            let width: usize = args.get(3).and_then(|s| s.parse().ok()).unwrap_or(80);
            let cfg = parse_cfg(&spec);
            let mut input = Vec::new();
            std::io::stdin().read_to_end(&mut input).unwrap();
            exec::install_panic_hook();
            match exec::render_staged(&cfg, &input, &[width]) {
                exec::Outcome::Ok(v) => match &v[0].0 {
                    exec::Outcome::Ok(s) => print!("{}", s),
                    o => println!("{}", o.kind()),
                },
                o => println!("{}", o.kind()),
            }
            0
        }
        "shrink" => {
            // vmon shrink <ID> <deco>[+opt...] <width> [sig-prefix]   (HTML on stdin; debugging aid)
            // Delta-debugs the input while the monitor's per-document judge keeps
            // reporting a violation whose signature starts with the prefix.
            use std::io::Read;
            let id = args.get(2).cloned().unwrap_or_default();
            let cfg = parse_cfg(args.get(3).map(|s| s.as_str()).unwrap_or("plain"));
            let width: usize = args.get(4).and_then(|s| s.parse().ok()).unwrap_or(80);
            let prefix = args.get(5).cloned().unwrap_or_default();
            let Some(judge) = mon::judge_for(&id) else {
                eprintln!("no per-document judge for {}", id);
                return 2;
            };
            let mut input = Vec::new();
            std::io::stdin().read_to_end(&mut input).unwrap();
            exec::install_panic_hook();
            let fails = |cand: &[u8]| -> bool {
                let mut out = run::CaseOut::default();
                judge(&mut out, cand, &cfg, width);
                out.violations.iter().any(|v| v.sig.starts_with(&prefix))
            };
            if !fails(&input) {
                println!("input does not fail with a signature starting with {:?}", prefix);
                let mut out = run::CaseOut::default();
                judge(&mut out, &input, &cfg, width);
                for v in &out.violations {
                    println!("  {} :: {}", v.sig, v.what);
                }
                return 1;
            }
            let small = shrink::ddmin(&input, fails, 6000);
            let mut out = run::CaseOut::default();
            judge(&mut out, &small, &cfg, width);
            for v in &out.violations {
                println!("{} :: {}", v.sig, v.what);
            }
            println!("{}", String::from_utf8_lossy(&small));
            0
        }
        "legcorpus" => {
            // vmon legcorpus <from> <to> [seed]   in-process corpus for interpreter/sanitizer legs
            let from: u64 = args.get(2).and_then(|s| s.parse().ok()).unwrap_or(0);
            let to: u64 = args.get(3).and_then(|s| s.parse().ok()).unwrap_or(40);
            let seed: u64 = args.get(4).and_then(|s| s.parse().ok()).unwrap_or(1);
            exec::install_panic_hook();
            let mut bad = 0;
            let mut evals = 0;
            for idx in from..to {
                let mut out = run::CaseOut::default();
                mon::c01::leg_case(seed, idx, &mut out);
                evals += out.evals;
                for v in &out.violations {
                    bad += 1;
                    println!("LEG-VIOLATION idx={} sig={} what={}", idx, v.sig, v.what);
                }
            }
            println!("LEG-SUMMARY cases={} evals={} violations={}", to - from, evals, bad);
            if bad > 0 {
                1
            } else {
                0
            }
        }
        "list" => {
            for m in registry() {
                println!("{} {}", m.id, m.title);
            }
            0
        }
        "check" => {
            if args.len() < 4 {
                eprintln!("usage: vmon check <ID> <quick|thorough>");
                return 2;
            }
            let Some(m) = find(&args[2]) else {
                eprintln!("unknown property {}", args[2]);
                return 2;
            };
            let Some(t) = Tier::parse(&args[3]) else {
                eprintln!("unknown tier {}", args[3]);
                return 2;
            };
            run::supervisor_main(m, t)
        }
        "worker" => {
            if args.len() < 7 {
                eprintln!("usage: vmon worker <ID> <tier> <seed> <shard> <nshards>");
                return 2;
            }
            let Some(m) = find(&args[2]) else { return 2 };
            let Some(t) = Tier::parse(&args[3]) else { return 2 };
            let seed: u64 = args[4].parse().unwrap_or(1);
            let mut shard: u64 = args[5].parse().unwrap_or(0);
            let nshards: u64 = args[6].parse().unwrap_or(1).max(1);
            let mut only = None;
            let mut mult = 1;
            let mut i = 7;
            while i < args.len() {
                match args[i].as_str() {
                    "--start" => {
                        shard = args[i + 1].parse().unwrap_or(shard);
                        i += 2;
                    }
                    "--only" => {
                        only = args[i + 1].parse().ok();
                        i += 2;
                    }
                    "--mult" => {
                        mult = args[i + 1].parse().unwrap_or(1);
                        i += 2;
                    }
                    _ => i += 1,
                }
            }
            run::worker_main(m, t, seed, shard, nshards, only, mult)
        }
        "replay" => {
            if args.len() < 3 {
                eprintln!("usage: vmon replay <path>");
                return 2;
            }
            run::replay_main(&args[2], &registry())
        }
        "one" => {
            if args.len() < 6 {
                eprintln!("usage: vmon one <ID> <tier> <seed> <idx>");
                return 2;
            }
            let Some(m) = find(&args[2]) else { return 2 };
            let Some(t) = Tier::parse(&args[3]) else { return 2 };
            let seed: u64 = args[4].parse().unwrap_or(1);
            let idx: u64 = args[5].parse().unwrap_or(0);
            exec::install_panic_hook();
            let res = std::thread::Builder::new()
                .stack_size(8 << 20)
                .spawn(move || {
                    let mut out = run::CaseOut::default();
                    (m.run_case)(seed, idx, t, &mut out);
                    out
                })
                .unwrap()
                .join();
            match res {
                Ok(out) => {
                    println!("evals={} undecided={}", out.evals, out.undecided);
                    println!("counters={:?}", out.counters);
                    if let Some(s) = &out.sample {
                        println!("sample={}", serde_json::to_string_pretty(s).unwrap());
                    }
                    for v in &out.violations {
                        println!("VIOLATION sig={} what={}", v.sig, v.what);
                        println!("{}", serde_json::to_string_pretty(&v.witness).unwrap());
                    }
                    if out.violations.is_empty() {
                        0
                    } else {
                        1
                    }
                }
                Err(_) => {
                    eprintln!("harness error");
                    2
                }
            }
        }
        _ => {
            eprintln!("unknown command {}", args[1]);
            2
        }
    }
}
