//! Witness reduction: delta debugging over bytes while the same monitor keeps
//! failing with the same signature.

/// Reduce `input` while `fails(candidate)` stays true.  Bounded effort.
pub fn ddmin(input: &[u8], mut fails: impl FnMut(&[u8]) -> bool, max_probes: usize) -> Vec<u8> {
    let mut cur = input.to_vec();
    let mut probes = 0;
    let mut chunk = (cur.len() / 2).max(1);
    while chunk >= 1 && probes < max_probes {
        let mut i = 0;
        let mut progressed = false;
        while i < cur.len() && probes < max_probes {
            let end = (i + chunk).min(cur.len());
            let mut cand = Vec::with_capacity(cur.len() - (end - i));
            cand.extend_from_slice(&cur[..i]);
            cand.extend_from_slice(&cur[end..]);
            probes += 1;
            if !cand.is_empty() && fails(&cand) {
                cur = cand;
                progressed = true;
            } else {
                i += chunk;
            }
        }
        if chunk == 1 && !progressed {
            break;
        }
        if !progressed || chunk > cur.len() {
            chunk /= 2;
        }
        if chunk == 0 {
            break;
        }
    }
    cur
}

/// Smallest width in `lo..=hi` (scanning upward from lo) for which `fails` holds, else `w`.
pub fn min_width(w: usize, lo: usize, mut fails: impl FnMut(usize) -> bool) -> usize {
    for cand in lo..w {
        if fails(cand) {
            return cand;
        }
        if cand > lo + 40 {
            break;
        }
    }
    w
}
