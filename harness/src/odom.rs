//! Oracle DOM: the harness's own html5ever TreeSink (arena of nodes), fed with
//! the same bytes and parser options as `Config::parse_html`.  It shares the
//! tokenizer / tree builder with the crate under test (that is the HTML
//! standard) but not `markup5ever_rcdom.rs`.

use html5ever::interface::tree_builder::{ElementFlags, NodeOrText, QuirksMode, TreeSink};
use html5ever::tendril::{StrTendril, TendrilSink};
use html5ever::tree_builder::TreeBuilderOpts;
use html5ever::{parse_document, Attribute, ExpandedName, ParseOpts, QualName};
use std::borrow::Cow;
use std::cell::RefCell;
use std::rc::Rc;

pub type Id = usize;

#[derive(Debug, Clone)]
pub enum Kind {
    Document,
    Doctype,
    Text(String),
    Comment(String),
    Element {
        /// local name
        name: String,
        /// true iff in the HTML namespace
        html: bool,
        attrs: Vec<(String, String)>,
        /// template contents document fragment, if a template
        template: Option<Id>,
    },
    Pi,
}

#[derive(Debug, Clone)]
pub struct ONode {
    pub kind: Kind,
    pub parent: Option<Id>,
    pub children: Vec<Id>,
}

#[derive(Debug, Clone, Default)]
pub struct ODom {
    pub nodes: Vec<ONode>,
}

pub struct H {
    id: Id,
    name: Option<QualName>,
}
type Handle = Rc<H>;

struct Sink {
    dom: RefCell<ODom>,
    doc: Handle,
}

impl Sink {
    fn new_node(&self, kind: Kind, name: Option<QualName>) -> Handle {
        let mut d = self.dom.borrow_mut();
        let id = d.nodes.len();
        d.nodes.push(ONode {
            kind,
            parent: None,
            children: Vec::new(),
        });
        Rc::new(H { id, name })
    }
    fn detach(&self, id: Id) {
        let mut d = self.dom.borrow_mut();
        if let Some(p) = d.nodes[id].parent.take() {
            let pos = d.nodes[p].children.iter().position(|&c| c == id);
            if let Some(pos) = pos {
                d.nodes[p].children.remove(pos);
            }
        }
    }
    fn append_text_or_node(&self, parent: Id, before: Option<Id>, child: NodeOrText<Handle>) {
        match child {
            NodeOrText::AppendText(t) => {
                let mut d = self.dom.borrow_mut();
                let pos = match before {
                    Some(b) => d.nodes[parent]
                        .children
                        .iter()
                        .position(|&c| c == b)
                        .expect("sibling not found"),
                    None => d.nodes[parent].children.len(),
                };
                // merge with the preceding text node, as the DOM standard says
                if pos > 0 {
                    let prev = d.nodes[parent].children[pos - 1];
                    if let Kind::Text(ref mut s) = d.nodes[prev].kind {
                        s.push_str(&t);
                        return;
                    }
                }
                let id = d.nodes.len();
                d.nodes.push(ONode {
                    kind: Kind::Text(t.to_string()),
                    parent: Some(parent),
                    children: Vec::new(),
                });
                d.nodes[parent].children.insert(pos, id);
            }
            NodeOrText::AppendNode(h) => {
                self.detach(h.id);
                let mut d = self.dom.borrow_mut();
                let pos = match before {
                    Some(b) => d.nodes[parent]
                        .children
                        .iter()
                        .position(|&c| c == b)
                        .expect("sibling not found"),
                    None => d.nodes[parent].children.len(),
                };
                d.nodes[h.id].parent = Some(parent);
                d.nodes[parent].children.insert(pos, h.id);
            }
        }
    }
}

impl TreeSink for Sink {
    type Handle = Handle;
    type Output = ODom;
    type ElemName<'a> = ExpandedName<'a>;

    fn finish(self) -> ODom {
        self.dom.into_inner()
    }
    fn parse_error(&self, _msg: Cow<'static, str>) {}
    fn get_document(&self) -> Handle {
        self.doc.clone()
    }
    fn elem_name<'a>(&'a self, target: &'a Handle) -> ExpandedName<'a> {
        target.name.as_ref().expect("not an element").expanded()
    }
    fn create_element(&self, name: QualName, attrs: Vec<Attribute>, flags: ElementFlags) -> Handle {
        let template = if flags.template {
            Some(self.new_node(Kind::Document, None).id)
        } else {
            None
        };
        let mut seen: Vec<(String, String)> = Vec::new();
        for a in attrs {
            let n = a.name.local.to_string();
            if !seen.iter().any(|(k, _)| *k == n) {
                seen.push((n, a.value.to_string()));
            }
        }
        let kind = Kind::Element {
            name: name.local.to_string(),
            html: &*name.ns == "http://www.w3.org/1999/xhtml",
            attrs: seen,
            template,
        };
        self.new_node(kind, Some(name))
    }
    fn create_comment(&self, text: StrTendril) -> Handle {
        self.new_node(Kind::Comment(text.to_string()), None)
    }
    fn create_pi(&self, _target: StrTendril, _data: StrTendril) -> Handle {
        self.new_node(Kind::Pi, None)
    }
    fn append(&self, parent: &Handle, child: NodeOrText<Handle>) {
        self.append_text_or_node(parent.id, None, child);
    }
    fn append_based_on_parent_node(
        &self,
        element: &Handle,
        prev_element: &Handle,
        child: NodeOrText<Handle>,
    ) {
        let has_parent = self.dom.borrow().nodes[element.id].parent.is_some();
        if has_parent {
            self.append_before_sibling(element, child);
        } else {
            self.append(prev_element, child);
        }
    }
    fn append_doctype_to_document(&self, _n: StrTendril, _p: StrTendril, _s: StrTendril) {
        let h = self.new_node(Kind::Doctype, None);
        self.append_text_or_node(self.doc.id, None, NodeOrText::AppendNode(h));
    }
    fn get_template_contents(&self, target: &Handle) -> Handle {
        let d = self.dom.borrow();
        match &d.nodes[target.id].kind {
            Kind::Element {
                template: Some(t), ..
            } => Rc::new(H { id: *t, name: None }),
            _ => panic!("not a template"),
        }
    }
    fn same_node(&self, x: &Handle, y: &Handle) -> bool {
        x.id == y.id
    }
    fn set_quirks_mode(&self, _mode: QuirksMode) {}
    fn append_before_sibling(&self, sibling: &Handle, new_node: NodeOrText<Handle>) {
        let parent = self.dom.borrow().nodes[sibling.id]
            .parent
            .expect("append_before_sibling: no parent");
        self.append_text_or_node(parent, Some(sibling.id), new_node);
    }
    fn add_attrs_if_missing(&self, target: &Handle, attrs: Vec<Attribute>) {
        let mut d = self.dom.borrow_mut();
        if let Kind::Element {
            attrs: ref mut existing,
            ..
        } = d.nodes[target.id].kind
        {
            for a in attrs {
                let n = a.name.local.to_string();
                if !existing.iter().any(|(k, _)| *k == n) {
                    existing.push((n, a.value.to_string()));
                }
            }
        }
    }
    fn remove_from_parent(&self, target: &Handle) {
        self.detach(target.id);
    }
    fn reparent_children(&self, node: &Handle, new_parent: &Handle) {
        let mut d = self.dom.borrow_mut();
        let kids = std::mem::take(&mut d.nodes[node.id].children);
        for &k in &kids {
            d.nodes[k].parent = Some(new_parent.id);
        }
        d.nodes[new_parent.id].children.extend(kids);
    }
}

/// Parse bytes exactly as `Config::parse_html` does (lossy UTF-8, drop_doctype).
pub fn parse(input: &[u8]) -> ODom {
    let sink = Sink {
        dom: RefCell::new(ODom { nodes: Vec::new() }),
        doc: Rc::new(H { id: 0, name: None }),
    };
    sink.dom.borrow_mut().nodes.push(ONode {
        kind: Kind::Document,
        parent: None,
        children: Vec::new(),
    });
    let opts = ParseOpts {
        tree_builder: TreeBuilderOpts {
            drop_doctype: true,
            ..Default::default()
        },
        ..Default::default()
    };
    let mut inp = input;
    parse_document(sink, opts)
        .from_utf8()
        .read_from(&mut inp)
        .expect("reading from a slice cannot fail")
}

impl ODom {
    pub fn kind(&self, id: Id) -> &Kind {
        &self.nodes[id].kind
    }
    pub fn children(&self, id: Id) -> &[Id] {
        &self.nodes[id].children
    }
    pub fn parent(&self, id: Id) -> Option<Id> {
        self.nodes[id].parent
    }
    pub fn is_element(&self, id: Id) -> bool {
        matches!(self.nodes[id].kind, Kind::Element { .. })
    }
    /// local name if an HTML-namespace element
    pub fn html_name(&self, id: Id) -> Option<&str> {
        match &self.nodes[id].kind {
            Kind::Element {
                name, html: true, ..
            } => Some(name.as_str()),
            _ => None,
        }
    }
    /// local name of any element
    pub fn local_name(&self, id: Id) -> Option<&str> {
        match &self.nodes[id].kind {
            Kind::Element { name, .. } => Some(name.as_str()),
            _ => None,
        }
    }
    pub fn attr(&self, id: Id, key: &str) -> Option<&str> {
        match &self.nodes[id].kind {
            Kind::Element { attrs, .. } => attrs
                .iter()
                .find(|(k, _)| k == key)
                .map(|(_, v)| v.as_str()),
            _ => None,
        }
    }
    /// Ancestors from the parent up to the document.
    pub fn ancestors(&self, id: Id) -> Vec<Id> {
        let mut v = Vec::new();
        let mut cur = self.nodes[id].parent;
        while let Some(p) = cur {
            v.push(p);
            cur = self.nodes[p].parent;
        }
        v
    }
    /// Pre-order walk over the document tree (iterative; template contents are
    /// not part of the tree).  `f` returns false to skip a subtree.
    pub fn walk(&self, mut f: impl FnMut(Id, bool) -> bool) {
        // (id, entering)
        let mut stack: Vec<(Id, bool)> = vec![(0, true)];
        while let Some((id, entering)) = stack.pop() {
            if entering {
                let descend = f(id, true);
                stack.push((id, false));
                if descend {
                    for &c in self.nodes[id].children.iter().rev() {
                        stack.push((c, true));
                    }
                }
            } else {
                f(id, false);
            }
        }
    }
    pub fn has_element(&self, name: &str) -> bool {
        self.nodes.iter().enumerate().any(|(i, n)| {
            matches!(&n.kind, Kind::Element{name: nm, html: true, ..} if nm == name)
                && self.attached(i)
        })
    }
    /// True if the node is reachable from the document root.
    pub fn attached(&self, id: Id) -> bool {
        let mut cur = id;
        loop {
            if cur == 0 {
                return true;
            }
            match self.nodes[cur].parent {
                Some(p) => cur = p,
                None => return false,
            }
        }
    }
}

/// Elements whose subtree a browser does not display (HTML namespace only).
pub fn is_hidden_container(name: &str) -> bool {
    matches!(name, "head" | "script" | "style")
}

/// One visible character with the text/img node it came from.
#[derive(Debug, Clone, Copy)]
pub struct VChar {
    pub c: char,
    pub node: Id,
}

pub fn is_visible_char(c: char) -> bool {
    !c.is_whitespace() && unicode_width::UnicodeWidthChar::width(c).is_some()
}

/// V(d): the visible character stream (text nodes, and `alt` of images having a
/// non-empty `src`), outside HTML head/script/style; whitespace and control
/// characters removed.  `skip` can hide further subtrees (CSS display:none).
pub fn visible_stream(dom: &ODom, skip: &dyn Fn(Id) -> bool) -> Vec<VChar> {
    let mut out = Vec::new();
    dom.walk(|id, entering| {
        if !entering {
            return true;
        }
        if skip(id) {
            return false;
        }
        match dom.kind(id) {
            Kind::Text(t) => {
                for c in t.chars() {
                    if is_visible_char(c) {
                        out.push(VChar { c, node: id });
                    }
                }
                false
            }
            Kind::Element { name, html, .. } => {
                if *html && is_hidden_container(name) {
                    return false;
                }
                if *html && name == "img" {
                    let src = dom.attr(id, "src").unwrap_or("");
                    let alt = dom.attr(id, "alt").unwrap_or("");
                    if !src.is_empty() {
                        for c in alt.chars() {
                            if is_visible_char(c) {
                                out.push(VChar { c, node: id });
                            }
                        }
                    }
                }
                true
            }
            Kind::Document => true,
            _ => false,
        }
    });
    out
}

pub fn visible_string(dom: &ODom) -> String {
    visible_stream(dom, &|_| false).iter().map(|v| v.c).collect()
}
