//! C12 — preformatted text keeps its lines and spacing.

use super::common::*;
use crate::ast::{self, El, Fmt, Node};
use crate::exec::*;
use crate::gen::{Profile, Tokens};
use crate::rng::Rng;
use crate::run::{CaseOut, Monitor, Plan, Tier};
use crate::textutil::*;
use serde_json::json;

pub static MONITOR: Monitor = Monitor {
    id: "C12",
    title: "Preformatted text keeps its lines and spacing",
    rule: "Reference model: each source line of a <pre> is expanded (tab -> next multiple of 8 columns relative to the block's left edge, at least one space; the HTML-mandated first newline dropped; <br> = line break). Workload: (i) bounded-exhaustive single-line <pre> over atoms {a, ab, space, tab, 漢} (quick <=5 atoms, thorough <=6) at every width 1..=12; (ii) random <pre> blocks of 1..8 lines of unique words, runs of 1..5 spaces, tabs, leading/trailing spaces, empty lines, wide characters, with line lengths concentrated around the available width, optionally with inline elements around words, around runs of white space alone (<span>    </span>, also unknown elements such as <b>, <tt>, <font>) and around a <br>, with runs of spaces that end exactly in the last column followed by a tab, optionally inside <li> or <blockquote> (available width w-2), widths 1..=60. Oracle: if every expanded line (trailing spaces counted) fits the available width, output lines == rstrip(expanded lines) (trailing empty lines ignored); otherwise every output line is at most the available width wide, the non-space characters of all output lines concatenated equal those of the source, every source line starts on a new output line, and in rich output all text of the first output line of a source line is tagged Preformat(false) and of its continuation lines Preformat(true). Distinct/non-trivial = distinct (block, width) cases containing a tab, a run of >=2 spaces, a blank line or a line that does not fit.",
    assumptions: &[
        "words in random blocks are unique tokens so that alignment of output to source lines is unambiguous",
    ],
    plan,
    run_case,
    thresholds,
    hang_is_violation: true,
    budget: None,
};

const ATOMS: [&str; 5] = ["a", "ab", " ", "\t", "漢"];

fn exhaustive_lines(max_atoms: u32) -> u64 {
    (1..=max_atoms).map(|k| 5u64.pow(k)).sum()
}

fn plan(tier: Tier) -> Plan {
    match tier {
        Tier::Quick => Plan {
            cases: exhaustive_lines(5) + 400_000,
            time_cap_s: 40,
            case_timeout_s: 10,
            exhaustive: false,
        },
        Tier::Thorough => Plan {
            cases: exhaustive_lines(6) + 3_000_000,
            time_cap_s: 420,
            case_timeout_s: 10,
            exhaustive: false,
        },
    }
}

fn thresholds(_t: Tier) -> Vec<(&'static str, u64)> {
    vec![
        ("cases", 1000),
        ("atom_lines_enumerated", 700),
        ("class_fits", 3000),
        ("class_does_not_fit", 3000),
        ("tabs_crossing_width", 100),
        ("continuation_pieces", 1000),
        ("rich_tag_checks", 1000),
        ("nested_blocks", 300),
        ("distinct", 2000),
    ]
}

/// Expand tabs of one source line (columns are display columns).
pub fn expand(line: &str) -> String {
    let mut out = String::new();
    let mut pos = 0usize;
    for c in line.chars() {
        if c == '\t' {
            let mut first = true;
            while pos % 8 != 0 || first {
                out.push(' ');
                pos += 1;
                first = false;
            }
        } else {
            out.push(c);
            pos += cw(c);
        }
    }
    out
}

fn decode_atoms(mut idx: u64, max_atoms: u32) -> String {
    for k in 1..=max_atoms {
        let n = 5u64.pow(k);
        if idx < n {
            let mut s = String::new();
            for _ in 0..k {
                s.push_str(ATOMS[(idx % 5) as usize]);
                idx /= 5;
            }
            return s;
        }
        idx -= n;
    }
    "a".into()
}

/// Source lines of a pre block as the reference sees them.
fn source_lines(content: &[Node]) -> Vec<String> {
    let mut lines = vec![String::new()];
    fn rec(nodes: &[Node], lines: &mut Vec<String>) {
        for n in nodes {
            match n {
                Node::Raw(t) => {
                    for c in t.chars() {
                        if c == '\n' {
                            lines.push(String::new());
                        } else {
                            lines.last_mut().unwrap().push(c);
                        }
                    }
                }
                Node::Word(w) => lines.last_mut().unwrap().push_str(w),
                Node::Space => lines.last_mut().unwrap().push(' '),
                Node::El(e) if e.tag == "br" => lines.push(String::new()),
                Node::El(e) if e.tag == "pre" => {
                    // a <pre> nested in the block is a block of its own: it starts on a
                    // new line and what follows it does too (blank lines around it are
                    // not compared, see check_pre)
                    if !lines.last().unwrap().is_empty() {
                        lines.push(String::new());
                    }
                    rec(&e.children, lines);
                    if !lines.last().unwrap().is_empty() {
                        lines.push(String::new());
                    }
                }
                Node::El(e) => rec(&e.children, lines),
                _ => {}
            }
        }
    }
    rec(content, &mut lines);
    lines
}

fn trim_trailing_empty(mut v: Vec<String>) -> Vec<String> {
    while v.last().map(|l| l.is_empty()).unwrap_or(false) {
        v.pop();
    }
    v
}

pub struct PreCase {
    pub content: Vec<Node>,
    /// 0 = top level, 1 = in <li>, 2 = in <blockquote>
    pub nest: usize,
}

fn build_doc(pc: &PreCase) -> Vec<Node> {
    let pre = El::with("pre", pc.content.clone()).node();
    match pc.nest {
        1 => vec![El::with("ul", vec![El::with("li", vec![pre]).node()]).node()],
        2 => vec![El::with("blockquote", vec![pre]).node()],
        _ => vec![pre],
    }
}

/// Judge one (pre block, width).  Returns false after reporting a violation.
pub fn check_pre(out: &mut CaseOut, pc: &PreCase, w: usize) -> bool {
    let doc = build_doc(pc);
    let input = ast::serialize(&doc, &mut Fmt::canonical());
    let pw = if pc.nest > 0 { 2 } else { 0 };
    if w <= pw {
        return true;
    }
    let avail = w - pw;
    let cfg = Cfg::rich();
    let o = render_lines(&cfg, &input, w);
    out.evals += 1;
    let lines = match &o {
        Outcome::Ok(l) => l,
        Outcome::TooNarrow => {
            out.inc("too_narrow");
            return true;
        }
        o => {
            out.violate(
                format!("pre:{}", o.fail_sig()),
                format!("rendering a <pre> gave {}", o.kind()),
                witness(&input, w, &cfg, json!({})),
            );
            return false;
        }
    };
    // strip the prefix column
    let mut got: Vec<String> = Vec::new();
    let mut got_tags: Vec<Vec<(String, Option<bool>)>> = Vec::new();
    for l in lines {
        let text = line_text(l);
        let stripped: String = text.chars().skip(pw).collect();
        got.push(stripped);
        let mut tags = Vec::new();
        let mut skipped = 0;
        for p in l {
            if let Piece::Str { s, tags: t } = p {
                // skip the prefix piece(s)
                let mut s2 = s.clone();
                if skipped < pw {
                    let take = (pw - skipped).min(s2.chars().count());
                    s2 = s2.chars().skip(take).collect();
                    skipped += take;
                }
                if s2.is_empty() {
                    continue;
                }
                let pf = t.iter().rev().find_map(|a| match a {
                    Ann::Preformat(b) => Some(*b),
                    _ => None,
                });
                tags.push((s2, pf));
            }
        }
        got_tags.push(tags);
    }
    let src = source_lines(&pc.content);
    let nested_pre = ast::has_tag(&pc.content, "pre");
    if nested_pre {
        out.inc("blocks_with_nested_pre");
    }
    let expanded: Vec<String> = src.iter().map(|l| expand(l)).collect();
    let maxw = expanded.iter().map(|l| sw_chars(l)).max().unwrap_or(0);
    if out.sample.is_none() {
        out.sample = Some(json!({"input": String::from_utf8_lossy(&input), "width": w, "available": avail, "output": got}));
    }
    if maxw <= avail {
        out.inc("class_fits");
        let exp = trim_trailing_empty(expanded.iter().map(|l| rstrip(l).to_string()).collect());
        // (compared modulo line-trailing spaces: the property removes them, and
        // whether spaces produced by a trailing tab count is not its subject)
        let g = trim_trailing_empty(got.iter().map(|l| rstrip(l).to_string()).collect());
        // around a nested <pre> the renderer separates blocks with blank lines: the lines
        // with content are compared, in order
        let (exp, g): (Vec<String>, Vec<String>) = if nested_pre {
            (
                exp.into_iter().filter(|l| !l.trim().is_empty()).collect(),
                g.into_iter().filter(|l| !l.trim().is_empty()).collect(),
            )
        } else {
            (exp, g)
        };
        if exp != g {
            let class = if exp.len() != g.len() {
                "line-count"
            } else if exp.iter().zip(g.iter()).all(|(a, b)| nonspace(a) == nonspace(b)) {
                "spacing"
            } else {
                "content"
            };
            out.violate(
                format!("pre-fits:{}", class),
                format!("every source line fits the available width {} but the block is not reproduced line for line ({})", avail, class),
                witness(&input, w, &cfg, json!({"expected": exp, "got": g, "available": avail})),
            );
            return false;
        }
        // tags: every text piece Preformat(false)
        for (ln, tl) in got_tags.iter().enumerate() {
            for (s, pf) in tl {
                out.inc("rich_tag_checks");
                if *pf != Some(false) && !s.trim().is_empty() {
                    out.violate(
                        "pre-tags:fits-not-first",
                        format!("line {} fits but its text {:?} is tagged {:?} instead of Preformat(false)", ln, s, pf),
                        witness(&input, w, &cfg, json!({"got": got})),
                    );
                    return false;
                }
            }
        }
        return true;
    }
    if nested_pre {
        // the alignment of wrapped source lines below does not model block separation
        out.inc("nested_pre_not_fitting_skipped");
        return true;
    }
    out.inc("class_does_not_fit");
    // (1) width bound
    for l in &got {
        if sw_min(l) > avail {
            out.violate(
                "pre-overflow:piece-too-wide",
                format!("a piece of a preformatted line is {} wide, available {}", sw_min(l), avail),
                witness(&input, w, &cfg, json!({"line": l, "got": got})),
            );
            return false;
        }
    }
    // (2) characters preserved in order
    let src_ns: String = src.iter().map(|l| nonspace(l)).collect();
    let got_ns: String = got.iter().map(|l| nonspace(l)).collect();
    if src_ns != got_ns {
        out.violate(
            "pre-overflow:characters-differ",
            "non-space characters of the output differ from the source (lost, duplicated or reordered)".to_string(),
            witness(&input, w, &cfg, json!({"expected_nonspace": src_ns, "got_nonspace": got_ns, "got": got})),
        );
        return false;
    }
    // (3) alignment: every source line starts on a new output line; tags
    let src_content: Vec<String> = src.iter().map(|l| nonspace(l)).collect();
    let mut si = 0usize; // index of the source line being consumed
    let mut remaining: String = String::new();
    let mut cur_src: usize = 0;
    let mut started = false;
    for (ln, l) in got.iter().enumerate() {
        let ns = nonspace(l);
        if ns.is_empty() {
            continue;
        }
        let mut first_of_source = false;
        if remaining.is_empty() {
            // next non-blank source line
            while si < src_content.len() && (started || true) {
                if !src_content[si].is_empty() {
                    break;
                }
                si += 1;
            }
            if si >= src_content.len() {
                break;
            }
            remaining = src_content[si].clone();
            cur_src = si;
            si += 1;
            started = true;
            first_of_source = true;
        }
        if !remaining.starts_with(&ns) {
            out.violate(
                "pre-overflow:line-break-lost",
                format!("output line {} ({:?}) mixes text of two source lines or breaks the order", ln, l),
                witness(&input, w, &cfg, json!({"got": got, "source_lines": src})),
            );
            return false;
        }
        remaining = remaining[ns.len()..].to_string();
        if !first_of_source {
            out.inc("continuation_pieces");
        }
        // Does this output line start in the middle of a source word?
        let consumed_before = src_content[cur_src].len() - remaining.len() - ns.len();
        let starts_mid_word = !first_of_source && {
            let mut seen = 0usize;
            let mut prev_ws = false;
            let mut mid = false;
            for c in src[cur_src].chars() {
                if c.is_whitespace() {
                    prev_ws = true;
                    continue;
                }
                if seen == consumed_before {
                    mid = !prev_ws;
                    break;
                }
                seen += c.len_utf8();
                prev_ws = false;
            }
            mid
        };
        let mut first_piece = true;
        for (s, pf) in &got_tags[ln] {
            if s.trim().is_empty() {
                continue;
            }
            out.inc("rich_tag_checks");
            let want = Some(!first_of_source);
            let is_first_piece = first_piece;
            first_piece = false;
            if *pf != want {
                // Leading whitespace of the source line may have filled (and
                // silently dropped) the first piece: then the first visible
                // piece legitimately is a continuation.
                if first_of_source && src[cur_src].starts_with(|c: char| c.is_whitespace()) {
                    out.inc("tag_unchecked_leading_whitespace");
                    continue;
                }
                // The crate tags a character Preformat(true) only if it arrived
                // beyond the width; whole words that land on a continuation line
                // (the moved word's head, and the words after it) keep
                // Preformat(false).  That known behaviour gets its own signature;
                // the rest of a word cut in the middle must be Preformat(true).
                let cut_word_rest = !first_of_source && is_first_piece && starts_mid_word;
                out.violate(
                    if first_of_source {
                        "pre-tags:first-piece-not-Preformat(false)"
                    } else if cut_word_rest {
                        "pre-tags:continuation-not-Preformat(true)"
                    } else {
                        "pre-tags:whole-word-on-continuation-line-not-Preformat(true)"
                    },
                    format!(
                        "output line {} is {} of its source line but its text {:?} is tagged {:?}",
                        ln,
                        if first_of_source { "the first piece" } else { "a continuation piece" },
                        s,
                        pf
                    ),
                    witness(&input, w, &cfg, json!({"got": got, "source_lines": src})),
                );
                return false;
            }
        }
    }
    true
}

fn gen_pre(rng: &mut Rng, avail: usize) -> Vec<Node> {
    let mut tok = Tokens::new();
    let mut p = Profile::full();
    p.wide_permille = 100;
    p.comb_permille = 0;
    p.long_permille = 0;
    let nlines = rng.range(1, 8);
    let mut nodes: Vec<Node> = Vec::new();
    let mut cur = String::new();
    let flush = |cur: &mut String, nodes: &mut Vec<Node>| {
        if !cur.is_empty() {
            nodes.push(Node::Raw(std::mem::take(cur)));
        }
    };
    for li in 0..nlines {
        if li > 0 {
            if rng.chance(1, 8) {
                flush(&mut cur, &mut nodes);
                if rng.chance(1, 4) {
                    // a line break that is the whole content of an inline element
                    let tag = *rng.pick(&["span", "b", "font"]);
                    nodes.push(El::with(tag, vec![El::new("br").node()]).node());
                } else {
                    nodes.push(El::new("br").node());
                }
            } else {
                cur.push('\n');
            }
        }
        if rng.chance(1, 7) {
            continue; // empty line
        }
        if rng.chance(1, 8) {
            // white space only (spaces, tabs) or leading indentation
            match rng.below(4) {
                0 => cur.push('\t'),
                1 => cur.push_str(" \t"),
                _ => cur.push_str(&" ".repeat(rng.range(1, 5))),
            }
            if rng.chance(1, 2) {
                continue;
            }
        }
        // target width around the available width
        let target = match rng.below(6) {
            0 => avail.saturating_sub(1),
            1 => avail,
            2 => avail + 1,
            3 => avail * 2 + 1,
            _ => rng.range(1, avail + 4),
        };
        let mut width = 0;
        let mut first = true;
        while width < target {
            if !first {
                let mut ws = String::new();
                if width < avail && rng.chance(1, 10) {
                    // spaces up to exactly the last column, then a tab (which has to wrap)
                    ws.push_str(&" ".repeat(avail - width));
                    ws.push('\t');
                    width = (avail / 8 + 1) * 8;
                } else if rng.chance(1, 5) {
                    ws.push('\t');
                    width = (width / 8 + 1) * 8;
                } else {
                    let n = rng.range(1, 5).min((target - width).max(1));
                    ws.push_str(&" ".repeat(n));
                    width += n;
                }
                if rng.chance(1, 8) {
                    // the white space is the whole content of an inline element
                    flush(&mut cur, &mut nodes);
                    let tag = *rng.pick(&["span", "b", "u", "tt", "font", "em", "strong", "code"]);
                    nodes.push(El::with(tag, vec![Node::Raw(ws)]).node());
                } else {
                    cur.push_str(&ws);
                }
            }
            first = false;
            p.boundary = Some((target.saturating_sub(width)).clamp(4, 12));
            let w = tok.unique(rng, &p);
            width += sw_chars(&w);
            if rng.chance(1, 12) && w.chars().count() >= 4 {
                // the word is split between plain text and an inline element
                let k = rng.range(1, w.chars().count() - 1);
                let head: String = w.chars().take(k).collect();
                let tail: String = w.chars().skip(k).collect();
                let tag = *rng.pick(&["b", "em", "strong", "span"]);
                if rng.chance(1, 2) {
                    cur.push_str(&head);
                    flush(&mut cur, &mut nodes);
                    nodes.push(El::with(tag, vec![Node::Raw(tail)]).node());
                } else {
                    flush(&mut cur, &mut nodes);
                    nodes.push(El::with(tag, vec![Node::Raw(head)]).node());
                    cur.push_str(&tail);
                }
            } else if rng.chance(1, 8) {
                flush(&mut cur, &mut nodes);
                let tag = *rng.pick(&["em", "strong", "code", "span"]);
                nodes.push(El::with(tag, vec![Node::Raw(w)]).node());
            } else {
                cur.push_str(&w);
            }
        }
        if rng.chance(1, 6) {
            cur.push_str(&" ".repeat(rng.range(1, 3))); // trailing spaces
        }
    }
    flush(&mut cur, &mut nodes);
    if nodes.is_empty() {
        nodes.push(Node::Raw("x".into()));
    }
    // a <pre> nested in the block (directly or inside an inline element), followed by more
    // preformatted text of the outer block
    if rng.chance(1, 12) {
        let inner_text = format!("{}  {}", tok.unique(rng, &p), tok.unique(rng, &p));
        let inner = El::with("pre", vec![Node::Raw(inner_text)]).node();
        let inner = if rng.chance(1, 3) { El::with("em", vec![inner]).node() } else { inner };
        let at = rng.below(nodes.len() + 1);
        nodes.insert(at, inner);
        let tail = format!("{}   {}\n  {}\t{}", tok.unique(rng, &p), tok.unique(rng, &p), tok.unique(rng, &p), tok.unique(rng, &p));
        nodes.insert(at + 1, Node::Raw(tail));
    }
    nodes
}

fn interesting(content: &[Node]) -> bool {
    let src = source_lines(content);
    src.iter().any(|l| l.contains('\t') || l.contains("  ") || l.is_empty())
}

fn run_case(seed: u64, idx: u64, tier: Tier, out: &mut CaseOut) {
    let mut rng = Rng::for_case(seed, "C12", idx);
    let max_atoms = match tier {
        Tier::Quick => 5,
        Tier::Thorough => 6,
    };
    let nex = exhaustive_lines(max_atoms);
    if idx < nex {
        out.inc("atom_lines_enumerated");
        let line = decode_atoms(idx, max_atoms);
        let pc = PreCase {
            content: vec![Node::Raw(line.clone())],
            nest: 0,
        };
        for w in 1..=12 {
            let e = expand(&line);
            if line.contains('\t') && sw_chars(&e) > w {
                out.inc("tabs_crossing_width");
            }
            if !check_pre(out, &pc, w) {
                return;
            }
            out.observe(crate::rng::hash_str(&line) ^ (w as u64) << 40);
        }
        return;
    }
    let w = rng.range(1, 60);
    let nest = match rng.below(4) {
        0 => 1,
        1 => 2,
        _ => 0,
    };
    if nest > 0 {
        out.inc("nested_blocks");
    }
    let avail = w.saturating_sub(if nest > 0 { 2 } else { 0 }).max(1);
    let content = gen_pre(&mut rng, avail);
    let pc = PreCase { content, nest };
    for &width in &[w, w + 1, w.saturating_sub(1).max(1), w + 8] {
        // (a violation at one width - most often the recorded tagging finding - does not
        // end the case: the other widths are judged as well)
        if !check_pre(out, &pc, width) {
            continue;
        }
        if interesting(&pc.content) {
            out.observe(crate::rng::hash_bytes(&ast::serialize(&pc.content, &mut Fmt::canonical())) ^ (width as u64) << 40);
        }
        let src = source_lines(&pc.content);
        if src.iter().any(|l| l.contains('\t') && sw_chars(&expand(l)) > width) {
            out.inc("tabs_crossing_width");
        }
    }
}
