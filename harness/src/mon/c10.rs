//! C10 — all API routes agree; rendering is deterministic; trees are reusable.

use super::common::*;
use crate::exec::*;
use crate::gen::{self, Profile};
use crate::rng::Rng;
use crate::run::{CaseOut, Monitor, Plan, Tier};
use crate::textutil::truncate;
use serde_json::json;

pub static MONITOR: Monitor = Monitor {
    id: "C10",
    title: "All API routes agree; rendering is deterministic and trees are reusable",
    rule: "A case is a call history: one document (table- and list-rich grammar document, 1 in 5 byte-mutated), one configuration (plain/plain_no_decorate/rich/trivial x layout option subsets, 1 in 4 with allow_width_overflow) and a width sequence w1..wn (n<=6; repeats, out-of-order values, 0 and too-narrow widths in between). For every wi the monitor compares string_from_read, a second string_from_read, join(lines_from_read), coloured with an identity map (rich), and render_to_string / join(render_to_lines) of clones of ONE tree built once by parse_html+dom_to_render_tree and rendered at all wi in order; Ok texts must be byte-equal and errors must be the same kind. In addition the first 400 cases are re-run in a second, separate worker process and a digest of everything the crate returned is compared with the first run (process-random state such as HashMap seeds must not leak into results). Distinct/non-trivial = distinct (document,width) results that are Ok with non-empty text; EstimateHit/Miss hook events count how often cached size estimates were reused.",
    assumptions: &[
        "cross-process determinism is checked on a sample of 400 cases per run (two processes)",
    ],
    plan,
    run_case,
    thresholds,
    hang_is_violation: false,
    budget: None,
};

fn plan(tier: Tier) -> Plan {
    match tier {
        Tier::Quick => Plan {
            cases: 30_000,
            time_cap_s: 40,
            case_timeout_s: 20,
            exhaustive: false,
        },
        Tier::Thorough => Plan {
            cases: 1_000_000,
            time_cap_s: 480,
            case_timeout_s: 20,
            exhaustive: false,
        },
    }
}

fn thresholds(_t: Tier) -> Vec<(&'static str, u64)> {
    vec![
        ("cases", 500),
        ("distinct", 500),
        ("histories_with_repeat", 100),
        ("histories_with_error_between", 100),
        ("routes_compared", 5_000),
        ("docs_with_table", 100),
        ("cross_process_cases_compared", 100),
    ]
}

fn same<T: PartialEq>(a: &Outcome<T>, b: &Outcome<T>) -> bool {
    a == b
}

fn run_case(seed: u64, idx: u64, _tier: Tier, out: &mut CaseOut) {
    let mut rng = Rng::for_case(seed, "C10", idx);
    let mut p = Profile::full();
    p.lead_br = true;
    p.id_permille = 80;
    p.a_name = true;
    p.stray_in_table = rng.chance(1, 4);
    p.edge_space = rng.chance(1, 3);
    p.href_controls = rng.chance(1, 2);
    p.odd_hrefs = rng.chance(1, 4);
    let doc = gen_doc(&mut rng, &p);
    let mut input = ser_varied(&doc, &mut rng);
    if rng.chance(1, 5) {
        let nops = rng.range(1, 5);
        input = gen::mutate(&mut rng, &input, nops, &gen::HOSTILE_DICT);
    }
    if rng.chance(1, 15) {
        // input without any markup (no '<', no '&'): plain words, spaces and line breaks,
        // possibly behind a byte-order mark or other leading oddities
        let mut tok = gen::Tokens::new();
        let pr = Profile::full();
        let mut t = String::new();
        t.push_str(*rng.pick(&["", "", "\u{feff}", "\u{feff}\u{feff}", "\n", " ", "\u{0}", "\u{200b}"]));
        for k in 0..rng.range(1, 12) {
            if k > 0 {
                t.push_str(*rng.pick(&[" ", " ", "\n", "  ", "\t", "\r\n", "\n\n"]));
            }
            t.push_str(&tok.unique(&mut rng, &pr));
        }
        input = t.into_bytes();
        out.inc("markup_free_inputs");
    }
    if crate::ast::has_tag(&doc, "table") {
        out.inc("docs_with_table");
    }
    let deco = match rng.below(4) {
        0 => Deco::Plain,
        1 => Deco::PlainNoDecorate,
        2 => Deco::Rich,
        _ => Deco::Trivial,
    };
    let mut cfg = Cfg::new(deco);
    layout_opts(&mut rng, &mut cfg, 100);
    // (footnotes with every decorator: the list is text that all routes must agree on)
    if rng.chance(1, 3) {
        cfg.footnotes = Some(true);
    }
    if rng.chance(1, 4) {
        cfg.overflow = true;
    }
    // styles that change the text (white-space) on the root wrappers: every route
    // must honour them alike
    if rng.chance(1, 6) {
        cfg.use_doc_css = true;
        let sel = *rng.pick(&["body", "html", "body > div", "p", "div", "*", "html > body"]);
        let ws = *rng.pick(&["pre", "pre-wrap"]);
        if rng.chance(1, 2) {
            cfg.css.push((Origin::User, format!("{} {{ white-space: {}; }}", sel, ws)));
        } else {
            let mut v = format!("<style>{} {{ white-space: {}; color: #102030 }}</style>", sel, ws).into_bytes();
            v.extend_from_slice(&input);
            input = v;
        }
        out.inc("histories_with_css");
    }
    // document styles that change text or colour.  Whether they apply depends only on
    // use_doc_css, on every route alike; several <style> elements whose rules tie in
    // the cascade must be resolved the same way on every call (source order).
    if rng.chance(1, 5) {
        if rng.chance(2, 3) {
            cfg.use_doc_css = true;
        }
        let sel = *rng.pick(&["p", "em", "li", "td", "div", "span", "strong", "a", "blockquote"]);
        let n = rng.range(1, 3);
        let mut v: Vec<u8> = Vec::new();
        for k in 0..n {
            let decl = match rng.below(4) {
                0 => "display: none".to_string(),
                1 => format!("white-space: {}", rng.pick(&["pre", "normal", "pre-wrap"])),
                2 => format!("color: #0{}0{}0{}", k + 1, k + 2, k + 3),
                _ => format!("display: {}; color: #a{}b{}c{}", rng.pick(&["none", "block", "inline"]), k, k, k),
            };
            v.extend_from_slice(format!("<style>{} {{ {} }}</style>", sel, decl).as_bytes());
        }
        v.extend_from_slice(&input);
        input = v;
        if rng.chance(1, 2) {
            // an inline declaration on the first element of some kind
            let tag = *rng.pick(&["<p>", "<em>", "<li>", "<td>", "<div>", "<span>"]);
            if let Some(pos) = input.windows(tag.len()).position(|w| w == tag.as_bytes()) {
                let decl = *rng.pick(&["display:none", "white-space:pre", "color:#123456", "display:none;color:red"]);
                let rep = format!("{} style=\"{}\">", &tag[..tag.len() - 1], decl);
                input.splice(pos..pos + tag.len(), rep.into_bytes());
            }
        }
        out.inc("histories_with_doc_styles");
    }
    // width history
    let n = rng.range(2, 6);
    let mut widths: Vec<usize> = Vec::new();
    for i in 0..n {
        let w = match rng.below(8) {
            0 => 0,
            1 => rng.range(1, 3),
            2 if i > 0 => widths[rng.below(i)], // repeat an earlier width
            _ => pick_width(&mut rng, 100),
        };
        widths.push(w);
    }
    {
        let mut sorted = widths.clone();
        sorted.sort_unstable();
        sorted.dedup();
        if sorted.len() < widths.len() {
            out.inc("histories_with_repeat");
        }
    }
    // staged route: one tree, all widths in order
    start_recording();
    let staged = render_staged(&cfg, &input, &widths);
    let ev = take_events();
    count_events(out, &ev);
    out.evals += 1 + 2 * widths.len() as u64;
    let staged = match staged {
        Outcome::Ok(v) => v,
        o => {
            // parse/tree building failed: must fail the same way one-shot
            let one = render_string(&cfg, &input, widths[0].max(1));
            if one.kind() != o.kind() && o.is_total() {
                out.violate(
                    "staged-setup-differs",
                    format!("parse_html/dom_to_render_tree gave {} but string_from_read gave {}", o.kind(), one.kind()),
                    witness(&input, widths[0], &cfg, json!({})),
                );
            }
            return;
        }
    };
    // cross-configuration route: the tree is built by a configuration that differs
    // only in its decorator and rendered by `cfg`
    let other = cross_build_cfg(&cfg, rng.next());
    let cross = render_cross(&other, &cfg, &input, &widths);
    out.evals += widths.len() as u64;
    let mut saw_err = false;
    let mut ok_after_err = false;
    for (i, &w) in widths.iter().enumerate() {
        let a = render_string(&cfg, &input, w);
        let a2 = render_string(&cfg, &input, w);
        let l = render_lines(&cfg, &input, w);
        out.evals += 3;
        let lj = l.clone().map(|ls| lines_to_string(&ls));
        let (ss, sl) = &staged[i];
        let slj = sl.clone().map(|ls| lines_to_string(&ls));
        let mut routes: Vec<(&str, Outcome<String>)> = vec![
            ("string_from_read (repeat)", a2),
            ("join(lines_from_read)", lj),
            ("render_to_string(tree.clone())", ss.clone()),
            ("join(render_to_lines(tree.clone()))", slj),
        ];
        if let Outcome::Ok(cv) = &cross {
            routes.push(("render_to_string(tree built under another decorator)", cv[i].clone()));
        }
        if i == 0 {
            if let Outcome::Ok((r1, r2)) = render_dom_twice(&cfg, &input, w) {
                routes.push(("render_to_string(first conversion of a kept DOM)", r1));
                routes.push(("render_to_string(second conversion of the same DOM)", r2));
            }
            out.evals += 2;
        }
        if cfg.deco == Deco::Rich {
            routes.push(("coloured(identity)", render_coloured(&cfg, &input, w)));
            out.evals += 1;
        }
        // the crate's top-level convenience functions are the same routes under fixed
        // configurations; parse() builds a tree without CSS and without do_decorate()
        if i == 0 {
            let (fr, frt, frr, pr) = convenience_routes(&cfg, &input, w);
            out.evals += 4;
            let checks: Vec<(&str, Outcome<String>, Outcome<String>)> = vec![
                ("from_read", fr, render_string(&Cfg::plain(), &input, w)),
                ("from_read_with_decorator(Trivial)", frt, render_string(&Cfg::trivial(), &input, w)),
                (
                    "from_read_rich",
                    frr.map(|ls| format!("{:?}", ls)),
                    render_lines(&Cfg::rich(), &input, w).map(|ls| format!("{:?}", ls)),
                ),
            ];
            for (name, got, exp) in checks {
                out.inc("routes_compared");
                if !same(&exp, &got) {
                    out.violate(
                        format!("route-differs:{}", name.split('(').next().unwrap_or(name)),
                        format!("{} gave {} but the corresponding Config route gave {}", name, short(&got), short(&exp)),
                        witness(&input, w, &cfg, json!({"route": name})),
                    );
                    return;
                }
            }
            if cfg.css.is_empty() && !cfg.use_doc_css && !cfg.decorate_on() {
                out.inc("routes_compared");
                if !same(&a, &pr) {
                    out.violate(
                        "route-differs:parse+render_to_string",
                        format!("html2text::parse + render_to_string gave {} but string_from_read gave {}", short(&pr), short(&a)),
                        witness(&input, w, &cfg, json!({"route": "parse"})),
                    );
                    return;
                }
            }
        }
        out.digest_str(&format!("{}|{:?}", w, a));
        if let Outcome::Ok(ls) = &l {
            out.digest_str(&format!("{:?}", ls));
        }
        if !a.is_total() {
            // C01's business; nothing to compare
            continue;
        }
        if a.is_ok() {
            if saw_err {
                ok_after_err = true;
            }
            if let Outcome::Ok(s) = &a {
                if !s.trim().is_empty() {
                    out.observe(crate::rng::hash_str(s) ^ (w as u64).wrapping_mul(0x9E3779B97F4A7C15));
                }
                if out.sample.is_none() && !s.is_empty() {
                    out.sample = Some(json!({"input": crate::textutil::show_bytes(&input, 300),
                        "config": cfg.describe(), "width_history": widths, "output_at": w,
                        "output": truncate(s, 300)}));
                }
            }
        } else {
            saw_err = true;
        }
        for (name, r) in &routes {
            out.inc("routes_compared");
            if !same(&a, r) {
                let sig = format!(
                    "route-differs:{}:{}",
                    name.split('(').next().unwrap_or(name),
                    if a.is_ok() && r.is_ok() { "text" } else { "outcome" }
                );
                out.violate(
                    sig,
                    format!(
                        "at width {} (position {} of history {:?}) string_from_read gave {} but {} gave {}",
                        w,
                        i,
                        widths,
                        short(&a),
                        name,
                        short(r)
                    ),
                    witness(
                        &input,
                        w,
                        &cfg,
                        json!({"history": widths, "route": name,
                               "string_from_read": a.ok().cloned().unwrap_or_else(|| a.kind()),
                               "other": r.ok().cloned().unwrap_or_else(|| r.kind())}),
                    ),
                );
                break;
            }
        }
        // the lines route must also agree with itself on tags between one-shot and staged
        if let (Outcome::Ok(l1), Outcome::Ok(l2)) = (&l, sl) {
            out.inc("routes_compared");
            if l1 != l2 {
                out.violate(
                    "route-differs:lines-tags",
                    format!("lines_from_read and render_to_lines(tree.clone()) differ in tags/markers at width {}", w),
                    witness(&input, w, &cfg, json!({"history": widths})),
                );
            }
        }
    }
    if ok_after_err {
        out.inc("histories_with_error_between");
    }
}

fn short(o: &Outcome<String>) -> String {
    match o {
        Outcome::Ok(s) => format!("Ok({:?})", truncate(s, 60)),
        o => o.kind(),
    }
}
