//! C08 — link footnotes are numbered consistently with their references.

use super::common::*;
use crate::ast::{El, Node};
use crate::exec::*;
use crate::gen::Profile;
use crate::odom::{self, Kind, ODom};
use crate::rng::Rng;
use crate::run::{CaseOut, Monitor, Plan, Tier};
use crate::textutil::*;
use serde_json::json;

pub static MONITOR: Monitor = Monitor {
    id: "C08",
    title: "Link footnotes are numbered consistently with their references",
    rule: "Documents from the block/table grammar (paragraphs, lists, quotes, headings, dt/dd, table cells, nested tables) in which 0..40 words are turned into hyperlinks (unique single-token texts, hrefs over digits and '/', not necessarily unique), interleaved with empty links (<a href=x></a>, <a href=x> </a>, <a href=x><img></a>) and href-less anchors; widths 10..=120; plain / trivial / rich x link_footnotes(true|false). Expected numbering comes from the oracle DOM (a[href] elements with visible content, in document order). Oracle: (i) with footnotes on the output ends with exactly the lines of '[k]: href_k' for k=1..n hard-wrapped by character at the width, preceded by a blank line, and no other line looks like a footnote; (ii) each link token that is intact in the output is immediately followed by '][k]' (plain) or '[k]' (trivial, rich) with its expected k (a reference cut by a line break is counted as unobserved); (iii) with footnotes off no '[k]: ' line exists and no link token is followed by a reference. Distinct/non-trivial = distinct outputs of documents with at least 2 links; documents whose links sit in at least 3 different container kinds are counted.",
    assumptions: &[
        "a link is 'empty' only in the three plain forms listed (no nested empty wrappers)",
    ],
    plan,
    run_case,
    thresholds,
    hang_is_violation: false,
    budget: None,
};

fn plan(tier: Tier) -> Plan {
    match tier {
        Tier::Quick => Plan {
            cases: 200_000,
            time_cap_s: 40,
            case_timeout_s: 20,
            exhaustive: false,
        },
        Tier::Thorough => Plan {
            cases: 3_000_000,
            time_cap_s: 360,
            case_timeout_s: 20,
            exhaustive: false,
        },
    }
}

fn thresholds(_t: Tier) -> Vec<(&'static str, u64)> {
    vec![
        ("cases", 1000),
        ("links_checked", 5000),
        ("refs_observed", 3000),
        ("footnote_blocks_checked", 1000),
        ("docs_links_in_3_containers", 200),
        ("docs_with_empty_links", 300),
        ("docs_links_in_tables", 200),
        ("distinct", 500),
    ]
}

struct Ins<'a> {
    rng: &'a mut Rng,
    n: usize,
    max: usize,
    prob: usize,
    empties: usize,
}

fn insert_links(nodes: &mut Vec<Node>, st: &mut Ins, in_pre: bool) {
    let mut i = 0;
    while i < nodes.len() {
        let mut replace: Option<Node> = None;
        let mut insert_after: Option<Node> = None;
        match &mut nodes[i] {
            // only unique tokens (upper-case initial) become links
            Node::Word(w)
                if !in_pre && w.chars().next().map(|c| c.is_ascii_uppercase()).unwrap_or(false) =>
            {
                if st.n < st.max && st.rng.below(100) < st.prob {
                    let href = match st.rng.below(8) {
                        7 => w.clone(), // the link text is its own target (a bare URL used as link text)
                        4 => String::new(), // href="" is still a link (with an empty target)
                        5 => {
                            // wide characters and characters without a display width (controls,
                            // zero-width space) inside a target long enough to be wrapped
                            let mut h = format!("/{}/", st.n);
                            for _ in 0..st.rng.range(4, 40) {
                                match st.rng.below(8) {
                                    0 => h.push(*st.rng.pick(&['\t', '\u{7f}', '\u{1}', '\u{85}', '\n', '\u{200b}'])),
                                    1 => h.push(*st.rng.pick(&['テ', 'ス', 'ト'])),
                                    _ => h.push((b'0' + st.rng.below(10) as u8) as char),
                                }
                            }
                            h
                        }
                        6 => format!("/{}/{}", st.n, "0123456789".repeat(st.rng.range(1, 6))),
                        0 => format!("/{}", st.n),
                        1 => "/7".to_string(), // repeated target
                        2 => format!("/{}/{}", st.n, 1234567890123u64),
                        _ => format!("{}", 9000 + st.n),
                    };
                    st.n += 1;
                    replace = Some(
                        El::with("a", vec![Node::Word(w.clone())])
                            .attr("href", &href)
                            .node(),
                    );
                } else if st.n < st.max && st.rng.below(100) < 3 {
                    // footnote-style numeric link inside a superscript
                    let href = format!("/{}", 7000 + st.n);
                    st.n += 1;
                    insert_after = Some(
                        El::with("sup", vec![El::with("a", vec![Node::Word(format!("{}", st.rng.range(1, 99)))]).attr("href", &href).node()]).node(),
                    );
                } else if st.rng.below(100) < 4 {
                    // an empty link or an href-less anchor next to the word
                    st.empties += 1;
                    insert_after = Some(match st.rng.below(4) {
                        0 => El::with("a", vec![]).attr("href", "/99").node(),
                        1 => El::with("a", vec![Node::Space]).attr("href", "/98").node(),
                        2 => El::with("a", vec![El::new("img").attr("alt", "zz").node()])
                            .attr("href", "/97")
                            .node(),
                        _ => El::with("a", vec![Node::Word("Anchortext".into())]).node(),
                    });
                }
            }
            Node::El(e) => {
                let pre = in_pre || e.tag == "pre";
                insert_links(&mut e.children, st, pre);
            }
            _ => {}
        }
        if let Some(r) = replace {
            nodes[i] = r;
        }
        if let Some(a) = insert_after {
            nodes.insert(i + 1, a);
            i += 1;
        }
        i += 1;
    }
}

pub struct LinkInfo {
    pub token: String,
    pub href: String,
    pub container: String,
}

/// Links with rendered content, in document order, from the oracle DOM.
pub fn links_of(dom: &ODom) -> Vec<LinkInfo> {
    let mut out = Vec::new();
    dom.walk(|id, entering| {
        if !entering {
            return true;
        }
        if let Kind::Element {
            name, html: true, ..
        } = dom.kind(id)
        {
            if odom::is_hidden_container(name) {
                return false;
            }
            if name == "a" {
                if let Some(href) = dom.attr(id, "href") {
                    // visible text below
                    let mut text = String::new();
                    let mut stack = vec![id];
                    while let Some(x) = stack.pop() {
                        match dom.kind(x) {
                            Kind::Text(t) => {
                                for c in t.chars().filter(|c| odom::is_visible_char(*c)) {
                                    text.push(c)
                                }
                            }
                            Kind::Element { name, html, .. } => {
                                if *html && name == "img" {
                                    let src = dom.attr(x, "src").unwrap_or("");
                                    let alt = dom.attr(x, "alt").unwrap_or("");
                                    if !src.is_empty() {
                                        text.push_str(alt);
                                    }
                                }
                                for &c in dom.children(x).iter().rev() {
                                    stack.push(c);
                                }
                            }
                            _ => {}
                        }
                    }
                    if !text.is_empty() {
                        let mut container = "body".to_string();
                        for a in dom.ancestors(id) {
                            if let Some(n) = dom.html_name(a) {
                                if matches!(
                                    n,
                                    "td" | "th" | "li" | "blockquote" | "dt" | "dd" | "p" | "div"
                                        | "h1" | "h2" | "h3" | "h4" | "h5" | "h6"
                                ) {
                                    container = if n.starts_with('h') { "h".into() } else { n.to_string() };
                                    break;
                                }
                            }
                        }
                        out.push(LinkInfo {
                            token: text,
                            href: href.to_string(),
                            container,
                        });
                    }
                }
            }
        }
        true
    });
    out
}

fn char_wrap(s: &str, w: usize) -> Vec<String> {
    let mut lines = Vec::new();
    let mut cur = String::new();
    let mut pos = 0;
    if sw(s) <= w {
        return vec![s.to_string()];
    }
    for c in s.chars() {
        let c_w = cw(c);
        if pos + c_w > w {
            lines.push(std::mem::take(&mut cur));
            pos = 0;
        }
        pos += c_w;
        cur.push(c);
    }
    lines.push(cur);
    lines
}

fn looks_like_footnote(l: &str) -> bool {
    let t = l.trim_start_matches(|c: char| c == ' ' || c == '>' || c == '*' || c == '#' || is_box(c));
    if !t.starts_with('[') {
        return false;
    }
    let rest = &t[1..];
    let digits: String = rest.chars().take_while(|c| c.is_ascii_digit()).collect();
    !digits.is_empty() && rest[digits.len()..].starts_with("]: ")
}

#[allow(clippy::too_many_arguments)]
pub fn check_footnotes(
    out: &mut CaseOut,
    links: &[LinkInfo],
    s: &str,
    w: usize,
    cfg: &Cfg,
    input: &[u8],
) -> bool {
    let on = cfg.footnotes_on();
    let lines: Vec<&str> = s.lines().collect();
    let n = links.len();
    if on {
        // (i) trailing block
        let mut expected: Vec<String> = Vec::new();
        for (k, l) in links.iter().enumerate() {
            let href = l.href.replace('\n', " ");
            expected.extend(char_wrap(&format!("[{}]: {}", k + 1, href), w));
        }
        out.inc("footnote_blocks_checked");
        let ok_tail = lines.len() >= expected.len()
            && lines[lines.len() - expected.len()..]
                .iter()
                .zip(expected.iter())
                .all(|(a, b)| *a == b);
        if !ok_tail {
            let got_tail: Vec<&str> = lines.iter().rev().take(expected.len() + 2).rev().cloned().collect();
            let class = {
                let got_count = lines.iter().filter(|l| looks_like_footnote(l)).count();
                if got_count != n {
                    format!("count:{}", if got_count > n { "too-many" } else { "too-few" })
                } else {
                    "content".to_string()
                }
            };
            out.violate(
                format!("footnote-list:{}", class),
                format!("the output does not end with the footnote list [1..{}] for the document's links ({})", n, class),
                witness(input, w, cfg, json!({"expected_tail": expected, "got_tail": got_tail})),
            );
            return false;
        }
        let body = &lines[..lines.len() - expected.len()];
        if n > 0 && !body.is_empty() && !body[body.len() - 1].trim().is_empty() {
            out.violate(
                "footnote-list:not-separated",
                "the footnote list is not separated from the body by a blank line".to_string(),
                witness(input, w, cfg, json!({"output": truncate(s, 800)})),
            );
            return false;
        }
        if let Some(l) = body.iter().find(|l| looks_like_footnote(l)) {
            out.violate(
                "footnote-list:duplicated-in-body",
                format!("a footnote-like line appears before the final list: {:?}", l),
                witness(input, w, cfg, json!({"output": truncate(s, 800)})),
            );
            return false;
        }
    } else if let Some(l) = lines.iter().find(|l| looks_like_footnote(l)) {
        out.violate(
            "footnotes-off:list-present",
            format!("link_footnotes is off but a footnote line appears: {:?}", l),
            witness(input, w, cfg, json!({"output": truncate(s, 800)})),
        );
        return false;
    }
    // (ii)/(iii) references
    for (k, l) in links.iter().enumerate() {
        out.inc("links_checked");
        if l.token.chars().all(|c| c.is_ascii_digit()) {
            // numeric link text (footnote-style superscripts): not searchable; the
            // list check above already counted it
            out.inc("numeric_link_texts");
            continue;
        }
        let Some(pos) = s.find(&l.token) else {
            out.inc("link_token_wrapped_or_absent");
            continue;
        };
        // what follows the token on its line, within its table cell
        let rest: String = s[pos + l.token.len()..]
            .chars()
            .take_while(|c| *c != '\n' && *c != '│')
            .take(16)
            .collect();
        let rest = rest.replace('\u{336}', "");
        let rest = rest.trim_end().to_string();
        let expect = match cfg.deco {
            Deco::Plain | Deco::PlainNoDecorate => format!("][{}]", k + 1),
            _ => format!("[{}]", k + 1),
        };
        if on {
            if rest.starts_with(&expect) {
                out.inc("refs_observed");
            } else if expect.starts_with(rest.as_str()) && rest.len() < expect.len() {
                // the reference was cut by the end of the line / cell
                out.inc("refs_cut_by_wrapping");
            } else {
                // maybe decoration closes first (e.g. "*" of an enclosing em in a plain decorator)
                let stripped: String = rest.chars().filter(|c| !matches!(c, '*' | '`' | '}')).collect();
                let e2: String = expect.clone();
                if stripped.starts_with(&e2) {
                    out.inc("refs_observed");
                    continue;
                }
                out.violate(
                    "reference-number",
                    format!(
                        "link {:?} (number {} in document order, inside <{}>) is followed by {:?}, expected {:?}",
                        l.token, k + 1, l.container, rest, expect
                    ),
                    witness(input, w, cfg, json!({"output": truncate(s, 1200)})),
                );
                return false;
            }
        } else {
            let bad = match cfg.deco {
                Deco::Plain | Deco::PlainNoDecorate => {
                    rest.starts_with("][") && rest[2..].chars().next().map(|c| c.is_ascii_digit()).unwrap_or(false)
                }
                _ => rest.starts_with('[') && rest[1..].chars().next().map(|c| c.is_ascii_digit()).unwrap_or(false),
            };
            if bad {
                out.violate(
                    "footnotes-off:reference-present",
                    format!("link_footnotes is off but link {:?} is followed by {:?}", l.token, rest),
                    witness(input, w, cfg, json!({"output": truncate(s, 800)})),
                );
                return false;
            }
            out.inc("refs_observed");
        }
    }
    true
}

fn run_case(seed: u64, idx: u64, _tier: Tier, out: &mut CaseOut) {
    let mut rng = Rng::for_case(seed, "C08", idx);
    let mut p = Profile::full();
    p.links = false;
    p.sup = false;
    // (stray children of a <ul> become items of their own; words among them may be
    // turned into links below)
    p.stray_in_list = rng.chance(1, 3);
    p.long_permille = 10;
    p.wide_permille = 40;
    p.max_blocks = 8;
    let mut doc = gen_doc(&mut rng, &p);
    let mut st = Ins {
        max: *rng.pick(&[0usize, 1, 3, 8, 20, 40]),
        prob: *rng.pick(&[5usize, 15, 40]),
        rng: &mut rng,
        n: 0,
        empties: 0,
    };
    insert_links(&mut doc, &mut st, false);
    let empties = st.empties;
    // a link around two or more blocks (a "card"): one link, one reference, one entry
    if rng.chance(1, 6) {
        let plain_block = |n: &Node| match n {
            Node::El(e) => {
                matches!(e.tag.as_str(), "p" | "div" | "h1" | "h2" | "h3" | "h4" | "h5" | "h6")
                    && !crate::ast::has_tag(std::slice::from_ref(n), "a")
                    && !crate::ast::has_tag(std::slice::from_ref(n), "table")
                    && !crate::ast::has_tag(std::slice::from_ref(n), "ul")
                    && !crate::ast::has_tag(std::slice::from_ref(n), "ol")
                    && !crate::ast::has_tag(std::slice::from_ref(n), "dl")
                    && !crate::ast::has_tag(std::slice::from_ref(n), "pre")
                    && !crate::ast::has_tag(std::slice::from_ref(n), "blockquote")
            }
            _ => false,
        };
        let mut i = 0;
        while i + 1 < doc.len() {
            if plain_block(&doc[i]) && plain_block(&doc[i + 1]) && rng.chance(1, 2) {
                let mut j = i + 2;
                while j < doc.len() && plain_block(&doc[j]) && rng.chance(1, 2) {
                    j += 1;
                }
                let blocks: Vec<Node> = doc.drain(i..j).collect();
                doc.insert(i, El::with("a", blocks).attr("href", "/777").node());
                out.inc("links_around_blocks");
                break;
            }
            i += 1;
        }
    }
    let input = if rng.chance(1, 2) {
        ser_canonical(&doc)
    } else {
        ser_varied(&doc, &mut rng)
    };
    let dom = odom::parse(&input);
    let links = links_of(&dom);
    if empties > 0 {
        out.inc("docs_with_empty_links");
    }
    {
        let mut kinds: Vec<&str> = links.iter().map(|l| l.container.as_str()).collect();
        kinds.sort_unstable();
        kinds.dedup();
        if kinds.len() >= 3 {
            out.inc("docs_links_in_3_containers");
        }
        if links.iter().any(|l| l.container == "td" || l.container == "th") {
            out.inc("docs_links_in_tables");
        }
    }
    let mut cfg = match rng.below(3) {
        0 => Cfg::plain(),
        1 => Cfg::trivial(),
        _ => Cfg::rich(),
    };
    cfg.footnotes = Some(rng.chance(3, 4));
    for _ in 0..2 {
        let w = rng.range(10, 120);
        let o = render_string(&cfg, &input, w);
        out.evals += 1;
        if let Outcome::Ok(s) = &o {
            if links.len() >= 2 {
                out.observe(crate::rng::hash_str(s));
            }
            if out.sample.is_none() && !links.is_empty() {
                out.sample = Some(sample(&input, w, &cfg, s));
            }
            if !check_footnotes(out, &links, s, w, &cfg, &input) {
                return;
            }
        }
    }
}
