//! C03 — document text is preserved: nothing lost, duplicated, reordered or invented.

use super::common::*;
use crate::ast;
use crate::exec::*;
use crate::gen::{self, Profile};
use crate::odom::{self, Kind, ODom};
use crate::rng::Rng;
use crate::run::{CaseOut, Monitor, Plan, Tier};
use crate::textutil::*;
use serde_json::json;
use std::collections::HashMap;

pub static MONITOR: Monitor = Monitor {
    id: "C03",
    title: "Document text is preserved: nothing lost, duplicated, reordered or invented",
    rule: "Documents: grammar documents whose text consists of unique tokens over the token alphabet T (ASCII letters, width-2 CJK letters, combining marks; hrefs/src use digits and '/'), including tiny/empty cells, colspans, thead/tbody, nested tables, pre, lists, quotes, dl, images, sup; 1 in 4 byte-mutated. Widths 1..=200; decorators trivial / plain / plain_no_decorate / rich with option mixes (raw, no borders, max/min wrap, pad, overflow). V(d) = visible character stream of the harness's own oracle DOM (text nodes + alt of images with a src, outside HTML head/script/style, minus whitespace and control characters). Oracle: for table-free documents and for raw mode T-projection(output) == T-projection(V(d)) as a sequence; with bordered/side-by-side tables equality as a multiset plus every table cell's own text being a subsequence of the output; for the trivial decorator additionally the complete non-whitespace output minus table border glyphs equals the complete V(d) (every character, so invention is checked for all characters). Distinct/non-trivial = distinct Ok outputs with at least 3 visible characters.",
    assumptions: &[
        "the oracle DOM shares html5ever's tokenizer and tree builder with the crate (the HTML standard), not its DOM sink",
        "an <img> contributes its alt only when it has a non-empty src; template contents, comments and control characters are not visible text",
        "superscript digits count as the digits they render; U+0336 is decoration when strikeout is on",
    ],
    plan,
    run_case,
    thresholds,
    hang_is_violation: false,
    budget: None,
};

fn plan(tier: Tier) -> Plan {
    match tier {
        Tier::Quick => Plan {
            cases: 300_000,
            time_cap_s: 40,
            case_timeout_s: 20,
            exhaustive: false,
        },
        Tier::Thorough => Plan {
            cases: 5_000_000,
            time_cap_s: 600,
            case_timeout_s: 20,
            exhaustive: false,
        },
    }
}

fn thresholds(_t: Tier) -> Vec<(&'static str, u64)> {
    vec![
        ("cases", 1000),
        ("compared_sequence", 1000),
        ("compared_multiset", 500),
        ("compared_trivial_full", 300),
        ("chars_compared", 50_000),
        ("distinct", 500),
        ("docs_mutated", 100),
    ]
}

/// True if the oracle DOM contains an HTML table element in the rendered tree.
fn has_table(dom: &ODom) -> bool {
    dom.has_element("table")
}

fn multiset(s: &str) -> HashMap<char, i64> {
    let mut m = HashMap::new();
    for c in s.chars() {
        *m.entry(c).or_insert(0) += 1;
    }
    m
}

fn multiset_diff(expected: &str, got: &str) -> (String, String) {
    let mut m = multiset(expected);
    for (c, n) in multiset(got) {
        *m.entry(c).or_insert(0) -= n;
    }
    let mut missing = String::new();
    let mut extra = String::new();
    let mut keys: Vec<_> = m.into_iter().collect();
    keys.sort();
    for (c, n) in keys {
        if n > 0 {
            for _ in 0..n {
                missing.push(c)
            }
        } else if n < 0 {
            for _ in 0..(-n) {
                extra.push(c)
            }
        }
    }
    (missing, extra)
}

fn is_subsequence(needle: &str, hay: &str) -> bool {
    let mut it = hay.chars();
    'outer: for c in needle.chars() {
        for h in it.by_ref() {
            if h == c {
                continue 'outer;
            }
        }
        return false;
    }
    true
}

/// Where did the first difference of two sequences occur?
fn first_diff(a: &str, b: &str) -> (usize, String, String) {
    let av: Vec<char> = a.chars().collect();
    let bv: Vec<char> = b.chars().collect();
    let mut i = 0;
    while i < av.len() && i < bv.len() && av[i] == bv[i] {
        i += 1;
    }
    let ctx = |v: &Vec<char>| -> String {
        let s = i.saturating_sub(8);
        let e = (i + 12).min(v.len());
        v[s..e].iter().collect()
    };
    (i, ctx(&av), ctx(&bv))
}

/// Structural class of the place a lost character lives in (signature detail):
/// the nearest ancestor relation that html2text is known to treat specially.
fn loss_class(dom: &ODom, node: odom::Id) -> String {
    let mut child = node;
    let mut in_cell = false;
    // the outermost list relation wins (the whole subtree is dropped there);
    // otherwise the innermost table relation
    let mut list_hit: Option<String> = None;
    let mut table_hit: Option<String> = None;
    while let Some(parent) = dom.parent(child) {
        let cn = dom.html_name(child).unwrap_or("");
        match dom.html_name(parent).unwrap_or("") {
            "ol" if cn != "li" => list_hit = Some("stray-child-of-ol".into()),
            "dl" if cn != "dt" && cn != "dd" => list_hit = Some("stray-child-of-dl".into()),
            "table" if table_hit.is_none() => {
                table_hit = Some(match cn {
                    "caption" => "in-caption".into(),
                    "thead" | "tbody" | "tfoot" => {
                        if in_cell {
                            format!("in-cell-of-{}", cn)
                        } else {
                            format!("stray-child-of-{}", cn)
                        }
                    }
                    _ => "stray-child-of-table".to_string(),
                });
            }
            "tr" if cn != "td" && cn != "th" && table_hit.is_none() => {
                table_hit = Some("stray-child-of-tr".into())
            }
            "tr" => {
                in_cell = true;
                // a spanning cell whose text is narrower than its colspan: its
                // size estimate divided by the span rounds to zero
                if table_hit.is_none() {
                    let span: usize = dom
                        .attr(child, "colspan")
                        .and_then(|v| v.trim().parse().ok())
                        .unwrap_or(1);
                    if span >= 2 {
                        let mut wsum = 0usize;
                        let mut stack = vec![child];
                        while let Some(x) = stack.pop() {
                            if let Kind::Text(t) = dom.kind(x) {
                                wsum += t.trim().chars().map(cw).sum::<usize>();
                            }
                            for &c in dom.children(x) {
                                stack.push(c);
                            }
                        }
                        if wsum < span || spanned_columns_have_no_own_text(dom, child) {
                            table_hit = Some("in-spanning-cell-over-columns-without-own-text".into());
                        }
                    }
                }
            }
            "select" if table_hit.is_none() => table_hit = Some("in-select".into()),
            _ => {}
        }
        child = parent;
    }
    list_hit.or(table_hit).unwrap_or_else(|| "in-flow".into())
}

/// For a spanning cell: do all the columns it spans lack a non-spanning cell
/// with visible text (in any row of its table)?  Such columns get their size
/// only from the spanning cell's share, which the allocation can round to 0.
pub fn spanned_columns_have_no_own_text(dom: &ODom, cell: odom::Id) -> bool {
    let span_of = |c: odom::Id| -> usize {
        dom.attr(c, "colspan")
            .and_then(|v| v.trim().parse::<usize>().ok())
            .unwrap_or(1)
            .clamp(1, 1000)
    };
    let Some(tr) = dom.parent(cell) else { return false };
    // the table: nearest table ancestor
    let Some(table) = dom.ancestors(cell).into_iter().find(|a| dom.html_name(*a) == Some("table")) else {
        return false;
    };
    // position of the cell
    let mut start = 0;
    for &c in dom.children(tr) {
        if c == cell {
            break;
        }
        if matches!(dom.html_name(c), Some("td") | Some("th")) {
            start += span_of(c);
        }
    }
    let end = start + span_of(cell);
    // all rows of this table (not of nested tables)
    let mut rows = Vec::new();
    let mut stack = vec![table];
    while let Some(x) = stack.pop() {
        for &c in dom.children(x) {
            match dom.html_name(c) {
                Some("tr") => rows.push(c),
                Some("thead") | Some("tbody") | Some("tfoot") => stack.push(c),
                _ => {}
            }
        }
    }
    let has_text = |c: odom::Id| -> bool {
        let mut st = vec![c];
        while let Some(y) = st.pop() {
            if let Kind::Text(t) = dom.kind(y) {
                if t.chars().any(odom::is_visible_char) {
                    return true;
                }
            }
            for &k in dom.children(y) {
                st.push(k);
            }
        }
        false
    };
    for r in rows {
        let mut pos = 0;
        for &c in dom.children(r) {
            if !matches!(dom.html_name(c), Some("td") | Some("th")) {
                continue;
            }
            let sp = span_of(c);
            if sp == 1 && pos >= start && pos < end && has_text(c) {
                return false;
            }
            pos += sp;
        }
    }
    true
}

/// Locate the lost text and classify the place it lives in.  `stream` is the
/// expected character stream (already filtered the way `expected`/`got` are).
fn classify_loss(dom: &ODom, stream: &[odom::VChar], expected: &str, got: &str, sequential: bool) -> String {
    let (missing, _) = multiset_diff(expected, got);
    let miss = multiset(&missing);
    // nodes whose characters are all among the missing ones
    let mut cands: Vec<odom::Id> = Vec::new();
    let mut i = 0;
    while i < stream.len() {
        let mut j = i;
        while j < stream.len() && stream[j].node == stream[i].node {
            j += 1;
        }
        let t: String = stream[i..j].iter().map(|v| v.c).collect();
        let m = multiset(&t);
        if m.iter().all(|(c, n)| miss.get(c).copied().unwrap_or(0) >= *n) {
            cands.push(stream[i].node);
        }
        i = j;
    }
    let special = |n: &odom::Id| {
        let c = loss_class(dom, *n);
        c.starts_with("stray") || c == "in-caption" || c.starts_with("in-spanning")
    };
    if let Some(n) = cands.iter().find(|n| special(n)) {
        return loss_class(dom, *n);
    }
    if cands.len() == 1 {
        return loss_class(dom, cands[0]);
    }
    if sequential {
        let (pos, _, _) = first_diff(expected, got);
        if let Some(v) = stream.get(pos) {
            return loss_class(dom, v.node);
        }
    }
    if let Some(n) = cands.first() {
        return loss_class(dom, *n);
    }
    "unlocated".into()
}

fn t_stream(dom: &ODom) -> Vec<odom::VChar> {
    odom::visible_stream(dom, &|_| false)
        .into_iter()
        .filter(|v| in_t(v.c))
        .collect()
}

/// Is a loss (characters `missing`, nothing extra) fully accounted for by table cells whose
/// whole text has no display width (e.g. a lone combining mark)?  Such a cell gives its
/// column no width and is skipped: a recorded finding with its own signature.
fn explained_by_zero_width_cells(dom: &ODom, missing: &str) -> bool {
    if missing.is_empty() || missing.chars().any(|c| cw(c) > 0) {
        return false;
    }
    let mut avail = multiset("");
    for cell in cell_texts(dom) {
        if !cell.is_empty() && cell.chars().all(|c| cw(c) == 0) {
            for (c, n) in multiset(&cell) {
                *avail.entry(c).or_insert(0) += n;
            }
        }
    }
    multiset(missing).into_iter().all(|(c, n)| avail.get(&c).copied().unwrap_or(0) >= n)
}

fn cell_texts(dom: &ODom) -> Vec<String> {
    let mut cells = Vec::new();
    for (id, n) in dom.nodes.iter().enumerate() {
        if let Kind::Element {
            name, html: true, ..
        } = &n.kind
        {
            if (name == "td" || name == "th") && dom.attached(id) {
                // text below this cell, not descending into nested tables
                let mut s = String::new();
                let mut stack = vec![id];
                while let Some(x) = stack.pop() {
                    match dom.kind(x) {
                        Kind::Text(t) => {
                            for c in t.chars().filter(|c| in_t(*c)) {
                                s.push(c)
                            }
                        }
                        Kind::Element { name, html, .. } => {
                            if x != id && *html && name == "table" {
                                continue;
                            }
                            if *html && odom::is_hidden_container(name) {
                                continue;
                            }
                            for &c in dom.children(x).iter().rev() {
                                stack.push(c);
                            }
                        }
                        _ => {}
                    }
                }
                if !s.is_empty() {
                    cells.push(s);
                }
            }
        }
    }
    cells
}

pub fn c03_cfg(rng: &mut Rng, mutated: bool) -> Cfg {
    let deco = match rng.below(5) {
        0 | 1 => Deco::Trivial,
        2 => Deco::Plain,
        3 => Deco::PlainNoDecorate,
        _ => Deco::Rich,
    };
    let mut cfg = Cfg::new(deco);
    if mutated {
        // hrefs of a mutated document may contain letters: keep them out of the output
        cfg.footnotes = Some(false);
    }
    if rng.chance(1, 5) {
        cfg.raw = true;
    }
    if rng.chance(1, 6) {
        cfg.no_borders = true;
    }
    if rng.chance(1, 5) {
        cfg.max_wrap = Some(*rng.pick(&[2usize, 5, 10, 20, 40]));
    }
    if rng.chance(1, 6) {
        cfg.min_wrap = Some(*rng.pick(&[0usize, 1, 2, 3, 4, 8]));
    }
    if rng.chance(1, 6) {
        cfg.pad = true;
    }
    if rng.chance(1, 4) {
        cfg.overflow = true;
    }
    if rng.chance(1, 8) {
        cfg.strikeout = Some(false);
    }
    cfg
}

/// Signature of a loss.  Under min_wrap_width(0) a text column of a table (or a whole
/// table) can be given zero width and its cells are then skipped; that recorded
/// finding is recognised from the hooked column allocation, so that any other loss
/// under the same option is still reported under its structural class.
fn loss_sig(class: &str, cfg: &Cfg, input: &[u8], w: usize) -> String {
    if cfg.min_wrap == Some(0) {
        let t = render_string_traced(cfg, input, w);
        for e in &t.events {
            if let Event::TableLayout { vertical, avail, col_widths, col_size, .. } = e {
                let starved = if *vertical {
                    *avail == 0 && col_size.iter().any(|&s| s > 0)
                } else {
                    col_widths.iter().zip(col_size.iter()).any(|(&cw, &cs)| cw == 0 && cs > 0)
                };
                if starved {
                    return "text-lost:table-column-zero-width:min_wrap_width(0)".to_string();
                }
            }
        }
    }
    format!("text-{}", class)
}

pub fn check_preserved(
    out: &mut CaseOut,
    dom: &ODom,
    input: &[u8],
    w: usize,
    cfg: &Cfg,
    output: &str,
    mutated: bool,
) {
    let v_all = odom::visible_string(dom);
    let v_t = t_proj(&v_all);
    let o_t = t_proj(output);
    let tables = has_table(dom);
    out.count("chars_compared", v_t.chars().count() as u64);
    if !tables || cfg.raw {
        out.inc("compared_sequence");
        if o_t != v_t {
            let (missing, extra) = multiset_diff(&v_t, &o_t);
            let class = if !missing.is_empty() && extra.is_empty() {
                format!("lost:{}", classify_loss(dom, &t_stream(dom), &v_t, &o_t, true))
            } else if missing.is_empty() && !extra.is_empty() {
                "duplicated-or-invented".to_string()
            } else if missing.is_empty() && extra.is_empty() {
                "reordered".to_string()
            } else {
                "lost-and-invented".to_string()
            };
            let (pos, ea, ga) = first_diff(&v_t, &o_t);
            out.violate(
                if class.starts_with("lost:") { loss_sig(&class, cfg, input, w) } else { format!("text:{}{}", class, if cfg.raw && tables { ":raw-table" } else { "" }) },
                format!(
                    "visible text differs from the output as a sequence ({}): at visible char {} expected ..{}.. got ..{}..",
                    class, pos, ea, ga
                ),
                witness(input, w, cfg, json!({"missing": truncate(&missing, 60), "extra": truncate(&extra, 60), "output": truncate(output, 1500), "mutated": mutated})),
            );
            return;
        }
    } else {
        out.inc("compared_multiset");
        let (missing, extra) = multiset_diff(&v_t, &o_t);
        if extra.is_empty() && explained_by_zero_width_cells(dom, &missing) {
            out.inc("zero_width_only_cells_not_drawn");
            if !missing.is_empty() {
                // a recorded finding with its own exact signature: any other loss keeps its structural class
                out.violate(
                    "text-lost:zero-width-only-cell",
                    format!("the text of a table cell made only of zero-width characters ({:?}) is missing: its column is given width 0 and the cell is skipped", truncate(&missing, 60)),
                    witness(input, w, cfg, json!({"missing": truncate(&missing, 60), "extra": "", "output": truncate(output, 1500), "mutated": mutated})),
                );
            }
            return;
        }
        if !missing.is_empty() || !extra.is_empty() {
            let class = if !missing.is_empty() && extra.is_empty() {
                format!("lost:{}", classify_loss(dom, &t_stream(dom), &v_t, &o_t, false))
            } else if missing.is_empty() {
                "duplicated-or-invented".to_string()
            } else {
                "lost-and-invented".to_string()
            };
            out.violate(
                if class.starts_with("lost:") { loss_sig(&class, cfg, input, w) } else { format!("text:{}:table-doc", class) },
                format!("visible text differs from the output as a multiset ({}): missing {:?} extra {:?}", class, truncate(&missing, 60), truncate(&extra, 60)),
                witness(input, w, cfg, json!({"missing": truncate(&missing, 60), "extra": truncate(&extra, 60), "output": truncate(output, 1500), "mutated": mutated})),
            );
            return;
        }
        for cell in cell_texts(dom) {
            out.inc("cells_checked");
            if !is_subsequence(&cell, &o_t) {
                out.violate(
                    "text:cell-reordered",
                    format!("the text of a table cell ({:?}) does not appear in order in the output", truncate(&cell, 40)),
                    witness(input, w, cfg, json!({"cell": cell, "output": truncate(output, 1500)})),
                );
                return;
            }
        }
    }
    // Trivial decorator: every character, not only T.
    if cfg.deco == Deco::Trivial {
        if v_all.chars().any(|c| is_box(c) || c == '/' || c == '\u{336}') {
            out.inc("trivial_full_skipped_ambiguous_text");
            return;
        }
        out.inc("compared_trivial_full");
        let strike = cfg.strikeout_on();
        let got: String = output
            .chars()
            .filter(|c| !c.is_whitespace() && !is_box(*c) && *c != '/')
            .filter(|c| !(strike && *c == '\u{336}'))
            .map(unsuper)
            .collect();
        let exp: String = v_all.chars().map(unsuper).collect();
        let same = if tables && !cfg.raw {
            let (m, e) = multiset_diff(&exp, &got);
            m.is_empty() && e.is_empty()
        } else {
            got == exp
        };
        if !same {
            let (missing, extra) = multiset_diff(&exp, &got);
            let class = if missing.is_empty() && !extra.is_empty() {
                format!("invented:{}", extra.chars().take(4).collect::<String>())
            } else if !missing.is_empty() && extra.is_empty() {
                let vs = odom::visible_stream(dom, &|_| false);
                format!("lost:{}", classify_loss(dom, &vs, &exp, &got, !(tables && !cfg.raw)))
            } else {
                "differs".to_string()
            };
            out.violate(
                if class.starts_with("lost:") { loss_sig(&class, cfg, input, w) } else { format!("trivial:{}", class) },
                format!("trivial decorator: output characters other than whitespace/borders differ from the document text: missing {:?} extra {:?}", truncate(&missing, 60), truncate(&extra, 60)),
                witness(input, w, cfg, json!({"missing": truncate(&missing, 60), "extra": truncate(&extra, 60), "output": truncate(output, 1500)})),
            );
        }
    }
}

/// Hand-written regression inputs (run as the first case indices): places
/// where text loss was observed or is plausible.
pub const PROBES: [&str; 11] = [
    // rendered with min_wrap_width(0) + allow_width_overflow at width 2 (see run_probe)
    "<dl><dd><table><tr><td>Celltext</td></tr></table></dd></dl>",
    "<table><caption>Captiontext</caption><tr><td>Cellone</td></tr></table>",
    "<table><tr><td>Bodycell</td></tr><tfoot><tr><td>Footcell</td></tr></tfoot></table>",
    "<ol>Straytext<li>Itemone</li></ol>",
    "<ol><p>Straypara</p><li>Itemone</li></ol>",
    "<dl>Straytext<dt>Termone</dt><dd>Defone</dd></dl>",
    "<table><tr><td colspan=3>ab<tr><td><td><td></table>",
    "<table><tr><td colspan=2>Spanning</td></tr><tr><td></td><td>x</td></tr></table>",
    "<ul>Straytext<li>Itemone</li></ul>",
    "<table><thead><tr><th>Headone</th></tr></thead><tbody><tr><td>Bodyone</td></tr></tbody></table>",
    "<select><option>Optionone</option></select><textarea>Areatext</textarea>",
];

fn run_probe(idx: u64, out: &mut CaseOut) {
    let input = PROBES[idx as usize].as_bytes();
    let dom = odom::parse(input);
    out.inc("probes");
    let starved = {
        let mut c = Cfg::trivial();
        c.min_wrap = Some(0);
        c.overflow = true;
        c
    };
    let cfgs: Vec<(Cfg, Vec<usize>)> = if idx == 0 {
        vec![(starved, vec![2])]
    } else {
        vec![(Cfg::trivial(), vec![40, 8]), (Cfg::plain(), vec![40, 8]), (Cfg::rich(), vec![40, 8])]
    };
    for (cfg, ws) in cfgs {
        for w in ws {
            let o = render_string(&cfg, input, w);
            out.evals += 1;
            if let Outcome::Ok(s) = &o {
                let before = out.violations.len();
                check_preserved(out, &dom, input, w, &cfg, s, false);
                if out.violations.len() > before {
                    return;
                }
            }
        }
    }
}

fn run_case(seed: u64, idx: u64, _tier: Tier, out: &mut CaseOut) {
    if (idx as usize) < PROBES.len() {
        run_probe(idx, out);
        return;
    }
    let mut rng = Rng::for_case(seed, "C03", idx);
    let mut p = Profile::full();
    p.lead_br = true;
    if rng.chance(1, 3) {
        p = p.no_tables();
    }
    p.wide_permille = *rng.pick(&[0usize, 80, 250]);
    p.comb_permille = *rng.pick(&[0usize, 40, 120]);
    p.stray_in_table = rng.chance(1, 4);
    p.nested_pre = rng.chance(1, 4);
    p.stray_in_list = rng.chance(1, 4);
    p.empty_lists = rng.chance(1, 4);
    p.edge_space = rng.chance(1, 4);
    p.uni_space_permille = *rng.pick(&[0usize, 0, 0, 100]);
    // ids and named anchors add zero-width markers that travel with the text; they
    // must not cost any of it
    if rng.chance(1, 3) {
        p.id_permille = *rng.pick(&[60usize, 250]);
        p.a_name = true;
    }
    let w = pick_width(&mut rng, 200);
    if rng.chance(1, 4) {
        p.boundary = Some(w.min(40));
    }
    let doc = gen_doc(&mut rng, &p);
    let mut input = if rng.chance(1, 2) {
        ser_canonical(&doc)
    } else {
        ser_varied(&doc, &mut rng)
    };
    let mutated = rng.chance(1, 4);
    if mutated {
        out.inc("docs_mutated");
        let nops = rng.range(1, 5);
        input = gen::mutate(&mut rng, &input, nops, &C03_DICT);
    }
    let cfg = c03_cfg(&mut rng, mutated);
    let dom = odom::parse(&input);
    if ast::has_tag(&doc, "table") {
        out.inc("docs_with_table");
    }
    // the same text must come out of a second conversion of a DOM that was already
    // converted once (applications keep the DOM and re-render)
    if rng.chance(1, 6) {
        if let Outcome::Ok((_, Outcome::Ok(s2))) = render_dom_twice(&cfg, &input, w) {
            out.evals += 2;
            out.inc("second_conversion_of_kept_dom");
            let before = out.violations.len();
            check_preserved(out, &dom, &input, w, &cfg, &s2, mutated);
            if out.violations.len() > before {
                let v = &mut out.violations[before];
                if !v.sig.contains("min_wrap_width(0)") && render_string(&cfg, &input, w).ok().map(|s| s != &s2).unwrap_or(false) {
                    v.sig = format!("{}:second-conversion-of-kept-dom", v.sig);
                }
                return;
            }
        }
    }
    for &width in &[w, pick_width(&mut rng, 200)] {
        let t = render_string_traced(&cfg, &input, width);
        out.evals += 1;
        count_events(out, &t.events);
        if let Outcome::Ok(s) = &t.out {
            out.inc("ok");
            if s.chars().filter(|c| !c.is_whitespace()).count() >= 3 {
                out.observe(crate::rng::hash_str(s));
            }
            if out.sample.is_none() && !s.trim().is_empty() {
                out.sample = Some(sample(&input, width, &cfg, s));
            }
            let before = out.violations.len();
            check_preserved(out, &dom, &input, width, &cfg, s, mutated);
            if out.violations.len() > before {
                // reduce the witness while the same signature is reported
                let sig = out.violations[before].sig.clone();
                let small = crate::shrink::ddmin(
                    &input,
                    |cand| {
                        let mut scratch = CaseOut::default();
                        if let Outcome::Ok(s2) = render_string(&cfg, cand, width) {
                            let d2 = odom::parse(cand);
                            check_preserved(&mut scratch, &d2, cand, width, &cfg, &s2, mutated);
                        }
                        scratch.violations.first().map(|v| v.sig == sig).unwrap_or(false)
                    },
                    400,
                );
                if small.len() < input.len() {
                    let mut scratch = CaseOut::default();
                    if let Outcome::Ok(s2) = render_string(&cfg, &small, width) {
                        let d2 = odom::parse(&small);
                        check_preserved(&mut scratch, &d2, &small, width, &cfg, &s2, mutated);
                    }
                    if let Some(v) = scratch.violations.into_iter().next() {
                        out.violations[before] = v;
                    }
                }
                break;
            }
        } else {
            out.inc("not_ok");
        }
    }
}

/// Mutation dictionary for C03: markup that keeps the oracle's notion of
/// visible text well-defined (no noscript / plaintext / caption / tfoot).
pub const C03_DICT: [&str; 40] = [
    "<table>", "</table>", "<tr>", "<td>", "<td colspan=2>", "<th colspan=3>", "</td>", "</tr>",
    "<ul>", "<ol start=99>", "<li>", "</ul>", "</ol>", "<blockquote>", "</blockquote>", "<pre>",
    "</pre>", "\t", "\n", "<br>", "<p>", "</p>", "<div>", "</div>", "<a href=\"/9\">", "</a>",
    "<img src=/1 alt=zz>", "<img alt=q>", "<h1>", "</h1>", "<dl><dt>", "<dd>", "</dl>", "<em>",
    "</em>", "<s>", "</s>", "<code>", "<!--", "-->",
];

pub fn judge_doc(out: &mut CaseOut, input: &[u8], cfg: &Cfg, w: usize) {
    if let Outcome::Ok(s) = render_string(cfg, input, w) {
        let dom = odom::parse(input);
        check_preserved(out, &dom, input, w, cfg, &s, false);
    }
}
