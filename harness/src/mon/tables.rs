//! Regular-table generator and the grid oracle shared by C05 and C06.

use crate::ast::{El, Node};
use crate::exec::{Cfg, Event};
use crate::gen::{Profile, Tokens};
use crate::rng::Rng;
use crate::textutil::*;

#[derive(Clone, Debug)]
pub struct TCell {
    /// colspan in source columns
    pub span: usize,
    /// words of the cell in order
    pub words: Vec<String>,
    /// a <br> follows word i (index into words)
    pub br_after: Vec<usize>,
    pub nested: Option<Box<TTable>>,
    pub th: bool,
    /// every <br>-separated segment becomes a <p> of its own (blank line between them)
    pub paras: bool,
    /// number of <br> after the last word; a cell without words that holds a <br>
    /// renders one blank line, which makes its row a row with content
    pub trail_br: usize,
    /// presentational attribute the renderer has no use for (align, valign, width)
    pub attr: Option<(&'static str, &'static str)>,
    /// a cell without words whose source holds white space only (<td> </td>)
    pub blank: bool,
    /// the words are written inside <pre> ... </pre> with a final line break (a listing)
    pub pre: bool,
}

impl TCell {
    /// no visible text (a nested table of empty cells renders nothing)
    pub fn is_empty(&self) -> bool {
        self.words.is_empty()
            && self
                .nested
                .as_ref()
                .map(|n| n.all_text().is_empty())
                .unwrap_or(true)
    }
    /// renders at least one (possibly blank) line
    pub fn renders(&self) -> bool {
        !self.is_empty() || (self.words.is_empty() && self.nested.is_none() && self.trail_br > 0)
    }
    /// the cell's own text, words concatenated
    pub fn text(&self) -> String {
        self.words.concat()
    }
    pub fn text_width(&self) -> usize {
        if self.words.is_empty() {
            0
        } else {
            self.words.iter().map(|w| sw_chars(w)).sum::<usize>() + self.words.len() - 1
        }
    }
}

#[derive(Clone, Debug)]
pub struct TTable {
    pub ncols: usize,
    pub rows: Vec<Vec<TCell>>,
    /// number of leading rows placed in <thead>
    pub thead_rows: usize,
    /// number of rows placed in <tfoot>: the last ones, or - with `tfoot_first` -
    /// the ones right after the head (written before the body, as HTML 4 asked;
    /// rows are rendered in source order either way)
    pub tfoot_rows: usize,
    pub tfoot_first: bool,
    /// the body rows from this index (into the body) on form a second <tbody>
    pub tbody_split: Option<usize>,
    /// id attributes on the table, its row groups, its first row and the first cell of
    /// every row (fragment markers are zero-width and must not disturb the drawing)
    pub ids: bool,
    /// every row group starts with a row that has no cells (<tr></tr>)
    pub empty_first_rows: bool,
}

impl TTable {
    pub fn has_nested(&self) -> bool {
        self.rows.iter().flatten().any(|c| c.nested.is_some())
    }
    pub fn to_node(&self) -> Node {
        let mut head = Vec::new();
        let mut body = Vec::new();
        let mut foot = Vec::new();
        let n = self.rows.len();
        let foot_range = if self.tfoot_rows == 0 {
            n..n
        } else if self.tfoot_first {
            self.thead_rows..(self.thead_rows + self.tfoot_rows).min(n)
        } else {
            n.saturating_sub(self.tfoot_rows).max(self.thead_rows)..n
        };
        for (ri, row) in self.rows.iter().enumerate() {
            let mut cells = Vec::new();
            for c in row {
                let mut content: Vec<Node> = Vec::new();
                if c.pre && !c.words.is_empty() {
                    let mut t = c.words.join(" ");
                    t.push('\n');
                    content.push(El::with("pre", vec![Node::Raw(t)]).node());
                } else if c.paras {
                    let mut seg: Vec<Node> = Vec::new();
                    for (i, w) in c.words.iter().enumerate() {
                        if !seg.is_empty() {
                            seg.push(Node::Space);
                        }
                        seg.push(Node::Word(w.clone()));
                        if c.br_after.contains(&i) || i + 1 == c.words.len() {
                            content.push(El::with("p", std::mem::take(&mut seg)).node());
                        }
                    }
                } else {
                    for (i, w) in c.words.iter().enumerate() {
                        if i > 0 && !c.br_after.contains(&(i - 1)) {
                            content.push(Node::Space);
                        }
                        content.push(Node::Word(w.clone()));
                        if c.br_after.contains(&i) {
                            content.push(El::new("br").node());
                        }
                    }
                }
                if c.blank && c.words.is_empty() {
                    content.push(Node::Space);
                }
                if !c.paras || c.words.is_empty() {
                    for _ in 0..c.trail_br {
                        content.push(El::new("br").node());
                    }
                }
                if let Some(n) = &c.nested {
                    content.push(n.to_node());
                }
                let mut e = El::with(if c.th { "th" } else { "td" }, content);
                if let Some((k, v)) = c.attr {
                    e.attrs.push((k.into(), v.into()));
                }
                if self.ids && cells.is_empty() {
                    e.attrs.push(("id".into(), format!("c{}", ri)));
                }
                if c.span > 1 {
                    e.attrs.push(("colspan".into(), c.span.to_string()));
                }
                cells.push(e.node());
            }
            let mut tr = El::with("tr", cells);
            if self.ids && ri == 0 {
                tr.attrs.push(("id".into(), "r0".into()));
            }
            let tr = tr.node();
            if ri < self.thead_rows {
                head.push(tr)
            } else if foot_range.contains(&ri) {
                foot.push(tr)
            } else {
                body.push(tr)
            }
        }
        let mut kids = Vec::new();
        let had_head = !head.is_empty();
        let ids = self.ids;
        let efr = self.empty_first_rows;
        let mut gi = 0usize;
        let mut group = |tag: &str, mut rows: Vec<Node>| -> Node {
            if efr {
                rows.insert(0, El::with("tr", Vec::new()).node());
            }
            let mut e = El::with(tag, rows);
            if ids {
                e.attrs.push(("id".into(), format!("g{}", gi)));
                gi += 1;
            }
            e.node()
        };
        if !head.is_empty() {
            kids.push(group("thead", head));
        }
        let foot_node = if foot.is_empty() { None } else { Some(group("tfoot", foot)) };
        if self.tfoot_first {
            if let Some(f) = foot_node.clone() {
                kids.push(f);
            }
        }
        if !body.is_empty() || (!had_head && foot_node.is_none()) {
            match self.tbody_split {
                Some(k) if k > 0 && k < body.len() => {
                    let second = body.split_off(k);
                    kids.push(group("tbody", body));
                    kids.push(group("tbody", second));
                }
                _ => kids.push(group("tbody", body)),
            }
        }
        if !self.tfoot_first {
            if let Some(f) = foot_node {
                kids.push(f);
            }
        }
        let mut t = El::with("table", kids);
        if self.ids {
            t.attrs.push(("id".into(), "t0".into()));
        }
        t.node()
    }
    /// Number of cells of every <tr> in source order, including the cell-less rows that
    /// `empty_first_rows` puts at the start of each row group.
    pub fn source_row_cells(&self) -> Vec<usize> {
        let n = self.rows.len();
        let nh = self.thead_rows.min(n);
        let nf = if self.tfoot_rows == 0 { 0 } else { self.tfoot_rows.min(n - nh) };
        let head: Vec<usize> = (0..nh).collect();
        let (foot, body): (Vec<usize>, Vec<usize>) = if nf == 0 {
            (Vec::new(), (nh..n).collect())
        } else if self.tfoot_first {
            ((nh..nh + nf).collect(), (nh + nf..n).collect())
        } else {
            ((n - nf..n).collect(), (nh..n - nf).collect())
        };
        let mut groups: Vec<Vec<usize>> = Vec::new();
        if !head.is_empty() {
            groups.push(head);
        }
        if self.tfoot_first && !foot.is_empty() {
            groups.push(foot.clone());
        }
        if !body.is_empty() || (nh == 0 && foot.is_empty()) {
            match self.tbody_split {
                Some(k) if k > 0 && k < body.len() => {
                    groups.push(body[..k].to_vec());
                    groups.push(body[k..].to_vec());
                }
                _ => groups.push(body),
            }
        }
        if !self.tfoot_first && !foot.is_empty() {
            groups.push(foot);
        }
        let mut v = Vec::new();
        for g in groups {
            if self.empty_first_rows {
                v.push(0);
            }
            for r in g {
                v.push(self.rows[r].len());
            }
        }
        v
    }
    /// all T-text of the table in document order
    pub fn all_text(&self) -> String {
        let mut s = String::new();
        for c in self.rows.iter().flatten() {
            s.push_str(&c.text());
            if let Some(n) = &c.nested {
                s.push_str(&n.all_text());
            }
        }
        s
    }
    /// Effective column boundaries after the renderer's colspan remapping:
    /// sorted set of cumulative span positions over all rows.
    pub fn boundaries(&self) -> Vec<usize> {
        let mut b = std::collections::BTreeSet::new();
        b.insert(0);
        for row in &self.rows {
            let mut c = 0;
            for cell in row {
                c += cell.span;
                b.insert(c);
            }
        }
        b.into_iter().collect()
    }
    /// True if every effective column has a cell that gives it a non-zero size
    /// estimate (text at least as wide as the number of effective columns it spans).
    pub fn all_columns_sized(&self) -> bool {
        let b = self.boundaries();
        let ncol = b.len() - 1;
        let mut sized = vec![false; ncol];
        for row in &self.rows {
            let mut c = 0;
            for cell in row {
                let a = b.iter().position(|&x| x == c).unwrap();
                let e = b.iter().position(|&x| x == c + cell.span).unwrap();
                let espan = e - a;
                let tw = if cell.nested.is_some() { usize::MAX } else { cell.text_width() };
                if tw >= espan && tw > 0 {
                    for s in sized.iter_mut().take(e).skip(a) {
                        *s = true;
                    }
                }
                c += cell.span;
            }
        }
        sized.iter().all(|&x| x)
    }
    /// Per effective column: does a non-spanning cell with text sit in it?
    pub fn columns_with_own_text(&self) -> Vec<bool> {
        let b = self.boundaries();
        let ncol = b.len() - 1;
        let mut own = vec![false; ncol];
        for row in &self.rows {
            let mut c = 0;
            for cell in row {
                let a = b.iter().position(|&x| x == c).unwrap();
                let e = b.iter().position(|&x| x == c + cell.span).unwrap();
                if e - a == 1 && !cell.is_empty() {
                    own[a] = true;
                }
                c += cell.span;
            }
        }
        own
    }
    /// Rows that have at least one non-empty cell (others are not rendered).
    pub fn visible_rows(&self) -> Vec<usize> {
        (0..self.rows.len())
            .filter(|&r| self.rows[r].iter().any(|c| c.renders()))
            .collect()
    }
}

#[derive(Clone, Copy, Debug, PartialEq, Eq)]
pub enum Content {
    Empty,
    Short,
    Long,
}

pub fn make_cell(rng: &mut Rng, tok: &mut Tokens, kind: Content, span: usize, wide: bool) -> TCell {
    let mut p = Profile::full();
    p.wide_permille = if wide { 200 } else { 0 };
    p.comb_permille = 0;
    p.long_permille = 0;
    let (words, br_after) = match kind {
        Content::Empty => (vec![], vec![]),
        Content::Short => (vec![tok.tiny(rng, &p)], vec![]),
        Content::Long => {
            let n = rng.range(1, 4);
            let words: Vec<String> = (0..n).map(|_| tok.unique(rng, &p)).collect();
            let mut br = Vec::new();
            if n > 1 && rng.chance(1, 4) {
                br.push(rng.below(n - 1));
            }
            (words, br)
        }
    };
    TCell {
        span,
        words,
        br_after,
        nested: None,
        th: rng.chance(1, 8),
        paras: false,
        trail_br: 0,
        attr: None,
        blank: false,
        pre: false,
    }
}

/// Random composition of `n` into parts >= 1.
fn tiling(rng: &mut Rng, n: usize, colspans: bool) -> Vec<usize> {
    let mut parts = Vec::new();
    let mut left = n;
    while left > 0 {
        let s = if colspans && rng.chance(1, 4) {
            rng.range(1, left)
        } else {
            1
        };
        parts.push(s);
        left -= s;
    }
    parts
}

pub fn gen_table(rng: &mut Rng, tok: &mut Tokens, depth: usize, allow_nested: bool) -> TTable {
    let nrows = rng.range(1, 5);
    let ncols = rng.range(1, 6);
    let wide = rng.chance(1, 4);
    let empties = *rng.pick(&[0usize, 5, 20]);
    let shorts = *rng.pick(&[0usize, 20, 50]);
    let mut rows = Vec::new();
    for _ in 0..nrows {
        let mut row = Vec::new();
        for span in tiling(rng, ncols, true) {
            let r = rng.below(100);
            let kind = if r < empties {
                Content::Empty
            } else if r < empties + shorts {
                Content::Short
            } else {
                Content::Long
            };
            let mut cell = make_cell(rng, tok, kind, span, wide);
            // <br> at the end of a cell (alone in an otherwise empty cell it is the
            // whole content of the cell); presentational attributes
            if rng.chance(1, 16) {
                cell.trail_br = rng.range(1, 2);
            }
            if rng.chance(1, 10) {
                cell.attr = Some(*rng.pick(&[
                    ("align", "right"),
                    ("align", "center"),
                    ("align", "left"),
                    ("align", "justify"),
                    ("valign", "bottom"),
                    ("width", "50%"),
                    ("nowrap", ""),
                ]));
            }
            if allow_nested && depth < 2 && rng.chance(1, 12) {
                cell.nested = Some(Box::new(gen_table(rng, tok, depth + 1, true)));
            }
            row.push(cell);
        }
        rows.push(row);
    }
    let thead_rows = if nrows > 1 && rng.chance(1, 4) {
        if nrows > 2 && rng.chance(1, 2) {
            2
        } else {
            1
        }
    } else {
        0
    };
    let rest = nrows - thead_rows;
    let tfoot_rows = if rest > 1 && rng.chance(1, 5) { 1 } else { 0 };
    let tfoot_first = tfoot_rows > 0 && rng.chance(1, 3);
    let nbody = rest - tfoot_rows;
    let tbody_split = if nbody > 1 && rng.chance(1, 5) { Some(rng.range(1, nbody - 1)) } else { None };
    TTable {
        ncols,
        rows,
        thead_rows,
        tfoot_rows,
        tfoot_first,
        tbody_split,
        ids: false,
        empty_first_rows: false,
    }
}

/// All compositions of n.
pub fn compositions(n: usize) -> Vec<Vec<usize>> {
    if n == 0 {
        return vec![vec![]];
    }
    let mut out = Vec::new();
    for first in 1..=n {
        for mut rest in compositions(n - first) {
            let mut v = vec![first];
            v.append(&mut rest);
            out.push(v);
        }
    }
    out
}

/// Number of tables in the exhaustive scope (rows <= max_rows, cols <= max_cols,
/// all tilings, 3 content classes per cell).
pub fn exhaustive_count(max_rows: usize, max_cols: usize) -> u64 {
    let mut total = 0u64;
    for cols in 1..=max_cols {
        let per_row: u64 = compositions(cols)
            .iter()
            .map(|t| 3u64.pow(t.len() as u32))
            .sum();
        for rows in 1..=max_rows {
            total += per_row.pow(rows as u32);
        }
    }
    total
}

pub fn exhaustive_table(mut idx: u64, max_rows: usize, max_cols: usize, rng: &mut Rng, tok: &mut Tokens) -> TTable {
    for cols in 1..=max_cols {
        let comps = compositions(cols);
        // row variants: (tiling, contents)
        let mut variants: Vec<(Vec<usize>, Vec<Content>)> = Vec::new();
        for t in &comps {
            let k = t.len();
            for code in 0..3u64.pow(k as u32) {
                let mut c = code;
                let mut kinds = Vec::new();
                for _ in 0..k {
                    kinds.push(match c % 3 {
                        0 => Content::Empty,
                        1 => Content::Short,
                        _ => Content::Long,
                    });
                    c /= 3;
                }
                variants.push((t.clone(), kinds));
            }
        }
        let per_row = variants.len() as u64;
        for rows in 1..=max_rows {
            let n = per_row.pow(rows as u32);
            if idx < n {
                let mut rws = Vec::new();
                for _ in 0..rows {
                    let v = &variants[(idx % per_row) as usize];
                    idx /= per_row;
                    let row: Vec<TCell> = v
                        .0
                        .iter()
                        .zip(v.1.iter())
                        .map(|(s, k)| {
                            let mut c = make_cell(rng, tok, *k, *s, false);
                            c.th = false;
                            c
                        })
                        .collect();
                    rws.push(row);
                }
                return TTable {
                    ncols: cols,
                    rows: rws,
                    thead_rows: 0,
                    tfoot_rows: 0,
                    tfoot_first: false,
                    tbody_split: None,
                    ids: false,
                    empty_first_rows: false,
                };
            }
            idx -= n;
        }
    }
    // unreachable for valid idx
    TTable {
        ncols: 1,
        rows: vec![vec![make_cell(rng, tok, Content::Long, 1, false)]],
        thead_rows: 0,
        tfoot_rows: 0,
        tfoot_first: false,
        tbody_split: None,
        ids: false,
        empty_first_rows: false,
    }
}

// ---------------------------------------------------------------------------
// Grid oracle

/// Character grid: one entry per display column; the second column of a wide
/// character holds '\0'.
pub fn to_grid(s: &str) -> Vec<Vec<char>> {
    s.lines()
        .map(|l| {
            let mut row = Vec::new();
            for c in l.chars() {
                let w = cw(c);
                if w == 0 {
                    continue; // combining marks occupy no column
                }
                row.push(c);
                for _ in 1..w {
                    row.push('\0');
                }
            }
            row
        })
        .collect()
}

pub fn is_rule_line(row: &[char]) -> bool {
    !row.is_empty() && row.iter().all(|c| is_rule_char(*c))
}
pub fn is_slash_line(row: &[char]) -> bool {
    !row.is_empty() && row.iter().all(|c| *c == '/')
}

#[derive(Debug, Clone)]
pub struct Finding {
    pub sig: String,
    pub what: String,
}

fn finding(sig: &str, what: String) -> Option<Finding> {
    Some(Finding {
        sig: sig.to_string(),
        what,
    })
}

/// Local box-drawing consistency of a whole output (valid with nested tables):
/// every rule glyph agrees with the bars directly above and below it; every bar
/// is continued above and below by a bar or a joining rule glyph.
pub fn check_local_rules(grid: &[Vec<char>], stats: &mut LocalStats) -> Option<Finding> {
    let h = grid.len();
    let at = |y: isize, x: usize| -> char {
        if y < 0 || y as usize >= h {
            return ' ';
        }
        grid[y as usize].get(x).copied().unwrap_or(' ')
    };
    for y in 0..h {
        for x in 0..grid[y].len() {
            let c = grid[y][x];
            if is_rule_char(c) {
                stats.junctions += 1;
                let above = at(y as isize - 1, x) == '│';
                let below = at(y as isize + 1, x) == '│';
                let want = match (above, below) {
                    (false, false) => '─',
                    (true, false) => '┴',
                    (false, true) => '┬',
                    (true, true) => '┼',
                };
                match c {
                    '┬' => stats.tee_down += 1,
                    '┴' => stats.tee_up += 1,
                    '┼' => stats.cross += 1,
                    _ => {}
                }
                if c != want {
                    return finding(
                        "junction-glyph",
                        format!(
                            "rule position (line {}, column {}) shows {:?} but bar-above={} bar-below={} requires {:?}",
                            y, x, c, above, below, want
                        ),
                    );
                }
            } else if c == '│' {
                stats.bars += 1;
                let a = at(y as isize - 1, x);
                let b = at(y as isize + 1, x);
                if !matches!(a, '│' | '┬' | '┼') {
                    return finding(
                        "bar-not-continued-above",
                        format!("vertical bar at (line {}, column {}) has {:?} above it", y, x, a),
                    );
                }
                if !matches!(b, '│' | '┴' | '┼') {
                    return finding(
                        "bar-not-continued-below",
                        format!("vertical bar at (line {}, column {}) has {:?} below it", y, x, b),
                    );
                }
            }
        }
    }
    None
}

#[derive(Default, Debug, Clone)]
pub struct LocalStats {
    pub junctions: u64,
    pub bars: u64,
    pub tee_down: u64,
    pub tee_up: u64,
    pub cross: u64,
}

pub struct Layout {
    pub vertical: bool,
    pub avail: usize,
    pub col_widths: Vec<usize>,
    pub from_hook: bool,
}

pub fn outer_layout(events: &[Event], grid: &[Vec<char>], w: usize) -> Layout {
    for e in events {
        if let Event::TableLayout {
            vertical,
            avail,
            col_widths,
            ..
        } = e
        {
            return Layout {
                vertical: *vertical,
                avail: *avail,
                col_widths: col_widths.clone(),
                from_hook: true,
            };
        }
    }
    // fallback without hooks: '/' rules, or rules exactly w wide with ragged text lines
    let vertical = grid.iter().any(|r| is_slash_line(r))
        || (grid.iter().any(|r| is_rule_line(r) && r.len() == w)
            && grid.iter().any(|r| !is_rule_line(r) && r.len() != w && !r.is_empty())
            && !grid.iter().flatten().any(|c| *c == '│'));
    Layout {
        vertical,
        avail: w,
        col_widths: Vec::new(),
        from_hook: false,
    }
}

/// Full structural check of a non-nested regular table laid out side by side.
/// Returns the column boundaries found (for evidence) or a finding.
pub fn check_side_by_side(t: &TTable, grid: &[Vec<char>], lay: &Layout, w: usize) -> Option<Finding> {
    let n = grid.len();
    if n == 0 {
        return finding("table-empty-output", "a table with visible rows rendered to nothing".into());
    }
    let width = grid[0].len();
    for (y, r) in grid.iter().enumerate() {
        if r.len() != width {
            return finding(
                "ragged-lines",
                format!("line {} is {} columns wide but line 0 is {}", y, r.len(), width),
            );
        }
    }
    if width > w {
        return finding("table-wider-than-width", format!("table lines are {} wide, width {}", width, w));
    }
    if !is_rule_line(&grid[0]) {
        return finding("no-top-rule", "the first line of the table is not a horizontal rule".into());
    }
    if !is_rule_line(&grid[n - 1]) {
        return finding("no-bottom-rule", "the last line of the table is not a horizontal rule".into());
    }
    // bands
    let rule_idx: Vec<usize> = (0..n).filter(|&y| is_rule_line(&grid[y])).collect();
    let vis = t.visible_rows();
    if rule_idx.len() != vis.len() + 1 {
        return finding(
            "row-band-count",
            format!("{} horizontal rules for {} rows with content", rule_idx.len(), vis.len()),
        );
    }
    for k in 0..rule_idx.len() - 1 {
        if rule_idx[k + 1] == rule_idx[k] + 1 {
            return finding("empty-row-band", format!("two adjacent rules at lines {} and {}", rule_idx[k], rule_idx[k + 1]));
        }
    }
    // boundaries -> x
    let b = t.boundaries();
    let ncol = b.len() - 1;
    let mut bx: Vec<Option<usize>> = vec![None; ncol + 1];
    for (band, &r) in vis.iter().enumerate() {
        let y0 = rule_idx[band] + 1;
        let y1 = rule_idx[band + 1];
        let row = &t.rows[r];
        // bars of this band
        let bars0: Vec<usize> = (0..width).filter(|&x| grid[y0][x] == '│').collect();
        for y in y0..y1 {
            let bars: Vec<usize> = (0..width).filter(|&x| grid[y][x] == '│').collect();
            if bars != bars0 {
                return finding(
                    "bars-move-within-row",
                    format!("vertical bars at {:?} on line {} but at {:?} on line {} of the same row", bars0, y0, bars, y),
                );
            }
        }
        if bars0.len() + 1 != row.len() {
            return finding(
                "cell-count-in-row",
                format!("row {} has {} cells but {} column separators", r, row.len(), bars0.len()),
            );
        }
        let mut c = 0;
        for (ci, cell) in row.iter().enumerate() {
            c += cell.span;
            let bi = b.iter().position(|&x| x == c).unwrap();
            if ci + 1 < row.len() {
                let x = bars0[ci];
                match bx[bi] {
                    None => bx[bi] = Some(x),
                    Some(px) if px != x => {
                        return finding(
                            "column-boundary-differs-between-rows",
                            format!("the boundary after source column {} is at x={} in row {} but at x={} in an earlier row", c, x, r, px),
                        )
                    }
                    _ => {}
                }
            }
        }
    }
    // order and hook agreement
    let known: Vec<(usize, usize)> = bx
        .iter()
        .enumerate()
        .filter_map(|(i, x)| x.map(|x| (i, x)))
        .collect();
    for k in 1..known.len() {
        if known[k].1 <= known[k - 1].1 {
            return finding("column-boundaries-out-of-order", format!("boundaries {:?}", known));
        }
    }
    if lay.from_hook && lay.col_widths.len() == ncol {
        let sum: usize = lay.col_widths.iter().sum::<usize>()
            + lay.col_widths.iter().filter(|&&x| x > 0).count().saturating_sub(1);
        if sum > lay.avail {
            return finding(
                "allocation-exceeds-width",
                format!("column widths {:?} plus separators = {} exceed the available width {}", lay.col_widths, sum, lay.avail),
            );
        }
        if lay.col_widths.iter().any(|&x| x == 0) {
            return finding(
                "text-column-zero-width",
                format!("column widths {:?}: a column holding text got zero width", lay.col_widths),
            );
        }
        if sum != width {
            return finding(
                "table-width-differs-from-allocation",
                format!("lines are {} wide but the allocated columns {:?} need {}", width, lay.col_widths, sum),
            );
        }
        // boundary i sits after columns 0..i
        let mut x = 0usize;
        for i in 1..ncol {
            x += lay.col_widths[i - 1];
            if let Some(found) = bx[i] {
                if found != x {
                    return finding(
                        "bar-not-at-allocated-boundary",
                        format!("boundary {} is drawn at x={} but the allocation {:?} puts it at x={}", i, found, lay.col_widths, x),
                    );
                }
            }
            x += 1;
        }
    }
    None
}

/// Cell containment / order / presence for a non-nested regular side-by-side
/// table whose structure already passed `check_side_by_side`.
pub fn check_cells(t: &TTable, grid: &[Vec<char>], cells_checked: &mut u64) -> Option<Finding> {
    let n = grid.len();
    let width = grid[0].len();
    let rule_idx: Vec<usize> = (0..n).filter(|&y| is_rule_line(&grid[y])).collect();
    let vis = t.visible_rows();
    for (band, &r) in vis.iter().enumerate() {
        let y0 = rule_idx[band] + 1;
        let y1 = rule_idx[band + 1];
        let bars: Vec<usize> = (0..width).filter(|&x| grid[y0][x] == '│').collect();
        let row = &t.rows[r];
        for (ci, cell) in row.iter().enumerate() {
            let x0 = if ci == 0 { 0 } else { bars[ci - 1] + 1 };
            let x1 = if ci + 1 == row.len() { width } else { bars[ci] };
            let mut got = String::new();
            for line in grid.iter().take(y1).skip(y0) {
                for &c in &line[x0..x1] {
                    if in_t(c) {
                        got.push(c);
                    }
                }
            }
            // combining marks are not in the grid; compare without them
            let exp: String = cell.text().chars().filter(|c| in_t(*c) && cw(*c) > 0).collect();
            *cells_checked += 1;
            if got != exp {
                let class = if got.is_empty() && !exp.is_empty() {
                    "cell-text-missing"
                } else if exp.is_empty() {
                    "text-in-empty-cell"
                } else {
                    "cell-text-differs"
                };
                return finding(
                    class,
                    format!(
                        "row {} cell {} (columns x={}..{}): expected text {:?} inside its rectangle, found {:?}",
                        r, ci, x0, x1, exp, got
                    ),
                );
            }
        }
    }
    None
}

/// Cell containment when the bars cannot be trusted: rectangles come from the
/// hooked column allocation (each cell is rendered in a sub-renderer of exactly
/// that width).  None if the output cannot be cut into row bands.
pub fn check_cells_by_allocation(t: &TTable, grid: &[Vec<char>], lay: &Layout, cells_checked: &mut u64) -> Option<Finding> {
    let n = grid.len();
    let rule_idx: Vec<usize> = (0..n).filter(|&y| is_rule_line(&grid[y])).collect();
    let vis = t.visible_rows();
    let b = t.boundaries();
    let ncol = b.len() - 1;
    if !lay.from_hook || rule_idx.len() != vis.len() + 1 || lay.col_widths.len() != ncol || lay.col_widths.iter().any(|&x| x == 0) {
        return None;
    }
    let mut start = vec![0usize; ncol + 1];
    for i in 0..ncol {
        start[i + 1] = start[i] + lay.col_widths[i] + 1;
    }
    for (band, &r) in vis.iter().enumerate() {
        let y0 = rule_idx[band] + 1;
        let y1 = rule_idx[band + 1];
        let mut c = 0;
        for (ci, cell) in t.rows[r].iter().enumerate() {
            let a = b.iter().position(|&x| x == c).unwrap();
            let e = b.iter().position(|&x| x == c + cell.span).unwrap();
            c += cell.span;
            let x0 = start[a];
            let x1 = start[e] - 1;
            let mut got = String::new();
            for line in grid.iter().take(y1).skip(y0) {
                for x in x0..x1.min(line.len()) {
                    if in_t(line[x]) {
                        got.push(line[x]);
                    }
                }
            }
            let exp: String = cell.text().chars().filter(|c| in_t(*c) && cw(*c) > 0).collect();
            *cells_checked += 1;
            if got != exp {
                return finding(
                    "cell-text-outside-allocated-columns",
                    format!(
                        "row {} cell {}: the allocation {:?} gives it columns x={}..{}; expected text {:?} there, found {:?}",
                        r, ci, lay.col_widths, x0, x1, exp, got
                    ),
                );
            }
        }
    }
    None
}

/// Stacked layout of a non-nested table: rule skeleton, widths, order.
pub fn check_stacked(t: &TTable, grid: &[Vec<char>], lay: &Layout, cfg: &Cfg) -> Option<Finding> {
    let avail = lay.avail;
    // expected skeleton of rule kinds
    let mut expected: Vec<char> = Vec::new();
    if cfg.borders_on() {
        expected.push('─');
        for ncells in t.source_row_cells() {
            for _ in 1..ncells {
                expected.push('/');
            }
            expected.push('─');
        }
    }
    let mut got: Vec<char> = Vec::new();
    for (y, r) in grid.iter().enumerate() {
        if is_rule_line(r) || is_slash_line(r) {
            if r.len() != avail {
                return finding(
                    "stacked-rule-width",
                    format!("rule on line {} is {} columns wide, the table was given {}", y, r.len(), avail),
                );
            }
            if is_rule_line(r) && r.iter().any(|c| *c != '─') {
                return finding("stacked-rule-has-junctions", format!("rule on line {} of a stacked table contains junction glyphs", y));
            }
            got.push(if is_slash_line(r) { '/' } else { '─' });
        } else if r.len() > avail {
            return finding(
                "stacked-line-too-wide",
                format!("line {} of a stacked table is {} wide, available {}", y, r.len(), avail),
            );
        } else if r.iter().any(|c| is_box(*c)) {
            return finding("stacked-stray-box-char", format!("line {} of a stacked table contains box characters inside text", y));
        }
    }
    if got != expected {
        return finding(
            "stacked-rule-skeleton",
            format!("rules of the stacked table are {:?}, expected {:?} (─ between rows and at both ends, / between the cells of a row)", got.iter().collect::<String>(), expected.iter().collect::<String>()),
        );
    }
    // order of text
    let got_t: String = grid
        .iter()
        .flatten()
        .filter(|c| in_t(**c))
        .collect();
    let exp_t: String = t.all_text().chars().filter(|c| in_t(*c) && cw(*c) > 0).collect();
    if got_t != exp_t {
        return finding(
            "stacked-text-order",
            format!("text of the stacked table is {:?}, expected {:?} in source order", truncate(&got_t, 80), truncate(&exp_t, 80)),
        );
    }
    None
}
