//! C18 — display:none hides exactly the matched subtrees.

use super::common::*;
use super::cssgen::*;
use super::cssref::*;
use crate::ast::{self, Node};
use crate::exec::*;
use crate::gen::Profile;
use crate::odom::{self, Kind, ODom};
use crate::rng::Rng;
use crate::run::{CaseOut, Monitor, Plan, Tier};
use crate::textutil::*;
use serde_json::json;
use std::collections::HashSet;

pub static MONITOR: Monitor = Monitor {
    id: "C18",
    title: "display:none hides exactly the matched subtrees",
    rule: "Grammar documents with classes and ids on every element kind (li, td, tr, table, a, headings, images, first/only children, links that shift footnote numbers, cells that change the column count). A random subset is hidden through user rules (add_css), <style> elements and style=\"display:none\" / \"height:0;overflow:hidden\" / \"max-height:0;overflow-y:hidden\" attributes (use_doc_css), with class / id / element / compound / descendant / child selectors; a share of cases adds competing display declarations (display:block / inline with other specificity, importance or origin). The hidden set is computed by the harness's reference matcher + cascade on the oracle DOM. Oracle 1: render(d, hiding CSS) == render(d with the hidden subtrees deleted from the AST, no CSS) - strings for plain (footnotes on) and tagged lines incl. FragmentStart for rich - at 3 widths in 1..=100. Oracle 2: with use_doc_css off, render(d) == render(d without <style> elements and style attributes). The Hidden hook counts real early returns. Distinct/non-trivial = distinct (document, hidden set) cases in which at least one element with visible text is hidden and at least one is not.",
    assumptions: &[
        "selectors never target html/body (hiding the whole document is C01's subject)",
    ],
    plan,
    run_case,
    thresholds,
    hang_is_violation: false,
    budget: None,
};

fn plan(tier: Tier) -> Plan {
    match tier {
        Tier::Quick => Plan {
            cases: 50_000,
            time_cap_s: 40,
            case_timeout_s: 20,
            exhaustive: false,
        },
        Tier::Thorough => Plan {
            cases: 1_200_000,
            time_cap_s: 420,
            case_timeout_s: 20,
            exhaustive: false,
        },
    }
}

fn thresholds(_t: Tier) -> Vec<(&'static str, u64)> {
    vec![
        ("cases", 1000),
        ("deletion_comparisons", 5000),
        ("doccss_off_comparisons", 1000),
        ("hidden_elements", 5000),
        ("hook:hidden", 5000),
        ("hidden_kind:li", 100),
        ("hidden_kind:td", 100),
        ("hidden_kind:a", 100),
        ("competing_display_cases", 300),
        ("distinct", 1000),
    ]
}

#[derive(Clone, Debug)]
struct DispDecl {
    none: bool,
}

fn tag_vocab() -> Vec<String> {
    [
        "p", "div", "span", "em", "li", "ul", "ol", "td", "th", "tr", "table", "a", "h2", "h3",
        "blockquote", "strong", "code", "pre", "img", "dl", "dt", "dd", "i", "s",
    ]
    .iter()
    .map(|s| s.to_string())
    .collect()
}

fn gen_hide_selector(rng: &mut Rng, v: &Vocab) -> Selector {
    let simple = |rng: &mut Rng| -> Compound {
        match rng.below(6) {
            0 | 1 => Compound(vec![Simple::Class(rng.pick(&v.classes).clone())]),
            2 => Compound(vec![Simple::Id(rng.pick(&v.ids).clone())]),
            3 => Compound(vec![Simple::Tag(rng.pick(&v.tags).clone())]),
            4 => Compound(vec![
                Simple::Tag(rng.pick(&v.tags).clone()),
                Simple::Class(rng.pick(&v.classes).clone()),
            ]),
            _ => Compound(vec![
                Simple::Class(rng.pick(&v.classes).clone()),
                Simple::Class(rng.pick(&v.classes).clone()),
            ]),
        }
    };
    let last = simple(rng);
    match rng.below(5) {
        0 => Selector {
            first: simple(rng),
            rest: vec![(Comb::Desc, last)],
        },
        1 => Selector {
            first: simple(rng),
            rest: vec![(Comb::Child, last)],
        },
        _ => Selector::simple(last),
    }
}

/// Delete every element whose data-u is in `hidden` from the AST; drop all
/// style / data-u attributes and <style> elements.
fn delete_hidden(nodes: &[Node], hidden: &HashSet<String>, strip_style_attr: bool) -> Vec<Node> {
    let mut out = Vec::new();
    for n in nodes {
        match n {
            Node::El(e) => {
                if let Some(u) = e.get_attr("data-u") {
                    if hidden.contains(u) {
                        // DOM-level deletion: the neighbours of the deleted element
                        // stay separate nodes (a comment keeps adjacent text nodes
                        // from merging when the source is parsed again)
                        out.push(Node::Comment("\u{0}deleted".into()));
                        continue;
                    }
                }
                if e.tag == "style" {
                    continue;
                }
                let mut e2 = e.clone();
                if strip_style_attr {
                    e2.attrs.retain(|(k, _)| k != "style");
                }
                e2.children = delete_hidden(&e.children, hidden, strip_style_attr);
                out.push(Node::El(e2));
            }
            other => out.push(other.clone()),
        }
    }
    // a placeholder is only needed (and only kept) between two text nodes
    let textlike = |n: &Node| matches!(n, Node::Word(_) | Node::Space | Node::Raw(_));
    let is_mark = |n: &Node| matches!(n, Node::Comment(c) if c.starts_with('\u{0}'));
    let mut res: Vec<Node> = Vec::new();
    let mut i = 0;
    while i < out.len() {
        if is_mark(&out[i]) {
            let mut j = i;
            while j < out.len() && is_mark(&out[j]) {
                j += 1;
            }
            let prev_text = res.last().map(textlike).unwrap_or(false);
            let next_text = out.get(j).map(textlike).unwrap_or(false);
            if prev_text && next_text {
                res.push(Node::Comment("x".into()));
            }
            i = j;
        } else {
            res.push(out[i].clone());
            i += 1;
        }
    }
    res
}

fn has_visible_text(dom: &ODom, id: odom::Id) -> bool {
    let mut stack = vec![id];
    while let Some(x) = stack.pop() {
        match dom.kind(x) {
            Kind::Text(t) => {
                if t.chars().any(odom::is_visible_char) {
                    return true;
                }
            }
            Kind::Element { .. } => {
                for &c in dom.children(x) {
                    stack.push(c);
                }
            }
            _ => {}
        }
    }
    false
}

fn run_case(seed: u64, idx: u64, _tier: Tier, out: &mut CaseOut) {
    let mut rng = Rng::for_case(seed, "C18", idx);
    let mut p = Profile::full();
    p.class_permille = 500;
    p.id_permille = 200;
    p.a_name = true;
    p.max_blocks = 5;
    let mut doc = gen_doc(&mut rng, &p);
    // a block whose children are all hidden, glued to inline text of its parent
    // (<li>text<div><span style="display:none">x</span></div>more</li>): with its
    // children gone the block has nothing to render and must leave no trace
    if rng.chance(1, 4) {
        let mut added = 0;
        ast::for_each_el_mut(&mut doc, &mut |e| {
            if added >= 2 || !matches!(e.tag.as_str(), "li" | "td" | "th" | "div" | "dd" | "blockquote") {
                return;
            }
            let words: Vec<usize> = e.children.iter().enumerate().filter(|(_, n)| matches!(n, Node::Word(_))).map(|(i, _)| i).collect();
            if words.is_empty() || !rng.chance(1, 2) {
                return;
            }
            let wi = *rng.pick(&words);
            let nkids = rng.range(1, 2);
            // (a <p> cannot hold block-level children: the parser would close it)
            let wrapper = *rng.pick(&["div", "p", "blockquote"]);
            let kid_tags: &[&str] = if wrapper == "p" { &["span", "em"] } else { &["span", "em", "p", "div"] };
            let kids: Vec<Node> = (0..nkids)
                .map(|k| {
                    ast::El::with(*rng.pick(kid_tags), vec![Node::Word(format!("Hid{}x{}", added, k))])
                        .attr("data-h", "1")
                        .node()
                })
                .collect();
            let block = ast::El::with(wrapper, kids).node();
            // directly after the word (no white space in between), or directly before it
            let at = if rng.chance(1, 2) { wi + 1 } else { wi };
            e.children.insert(at, block);
            added += 1;
        });
        out.count("all_hidden_blocks_next_to_text", added);
    }
    // unique handle on every element
    let mut n = 0usize;
    ast::for_each_el_mut(&mut doc, &mut |e| {
        e.attrs.push(("data-u".into(), format!("{}", n)));
        n += 1;
    });
    // ids actually used in the document
    let mut ids: Vec<String> = Vec::new();
    ast::for_each_el(&doc, &mut |e, _| {
        if let Some(i) = e.get_attr("id") {
            ids.push(i.to_string());
        }
    });
    if ids.is_empty() {
        ids.push("nosuchid".into());
    }
    let vocab = Vocab {
        tags: tag_vocab(),
        classes: (0..4).map(|i| format!("c{}", i)).collect(),
        ids,
    };
    // hiding rules: (origin 1=user 2=author, rule)
    let competing = rng.chance(1, 4);
    if competing {
        out.inc("competing_display_cases");
    }
    let nrules = rng.range(0, 3);
    let mut user_rules: Vec<Rule> = Vec::new();
    let mut author_rules: Vec<Rule> = Vec::new();
    for _ in 0..nrules {
        let sel = gen_hide_selector(&mut rng, &vocab);
        let mut decls = match rng.below(6) {
            0 => {
                let mut v = vec![
                    Decl { kind: DeclKind::HeightZero, important: false },
                    Decl { kind: DeclKind::OverflowHidden, important: false },
                ];
                if rng.chance(1, 2) {
                    v.reverse();
                }
                v
            }
            _ => vec![Decl {
                kind: DeclKind::DisplayNone,
                important: competing && rng.chance(1, 3),
            }],
        };
        if rng.chance(1, 4) {
            let (c, f) = gen_colour(&mut rng);
            decls.push(Decl { kind: DeclKind::Color(c, f), important: false });
        }
        let rule = Rule { selectors: vec![sel], decls };
        if rng.chance(1, 2) {
            user_rules.push(rule)
        } else {
            author_rules.push(rule)
        }
    }
    if competing {
        for _ in 0..rng.range(1, 2) {
            let sel = gen_hide_selector(&mut rng, &vocab);
            let rule = Rule {
                selectors: vec![sel],
                decls: vec![Decl {
                    kind: DeclKind::DisplayOther(rng.pick(&["block", "inline", "table-cell"]).to_string()),
                    important: rng.chance(1, 3),
                }],
            };
            if rng.chance(1, 2) {
                user_rules.push(rule)
            } else {
                author_rules.push(rule)
            }
        }
    }
    // the same rule once more at the end of its sheet (A, B, A): the repetition is the
    // later one in source order
    if rng.chance(1, 5) {
        for rules in [&mut user_rules, &mut author_rules] {
            if rules.len() >= 2 && rng.chance(1, 2) {
                let k = rng.below(rules.len() - 1);
                let dup = rules[k].clone();
                rules.push(dup);
                out.inc("sheets_with_repeated_rule");
            }
        }
    }
    // inline hiding on a few elements
    let mut inline: Vec<(String, bool)> = Vec::new(); // (data-u, none?)
    ast::for_each_el_mut(&mut doc, &mut |e| {
        if e.get_attr("data-h").is_some() {
            let u = e.get_attr("data-u").unwrap().to_string();
            e.set_attr("style", "display:none");
            inline.push((u, true));
            return;
        }
        if rng.below(100) < 4 {
            let u = e.get_attr("data-u").unwrap().to_string();
            // forms of the zero-height idiom that do not hide: no overflow:hidden, a
            // non-zero or automatic height, an overflow value other than hidden
            const NOT_HIDING: [&str; 7] = [
                "height:0",
                "height:1px;overflow:hidden",
                "height:0;overflow:visible",
                "height:auto;overflow:hidden",
                "max-height:0;overflow:scroll",
                "overflow:hidden",
                "height:0.5em;overflow-y:hidden",
            ];
            let (style, none) = match rng.below(6) {
                0 => (*rng.pick(&["height:0;overflow:hidden", "overflow:hidden;height:0", "height:0px;overflow:hidden", "height: 0.0em; overflow: hidden"]), true),
                1 => (*rng.pick(&["max-height: 0; overflow-y: hidden", "overflow-y: hidden; max-height: 0", "max-height:0pt;overflow:hidden", "height:0in;overflow-y:hidden"]), true),
                2 if competing => ("display: block", false),
                3 | 4 => (*rng.pick(&NOT_HIDING), false),
                _ => (*rng.pick(&["display:none", "display:none", "display: none ", "display: none ;", "display:none; *zoom:1", " display:none;; ", "display:none;color", "DISPLAY:NONE"]), true),
            };
            if NOT_HIDING.contains(&style) {
                e.set_attr("style", style);
                return;
            }
            e.set_attr("style", style);
            inline.push((u, none));
        }
    });
    let mut st = CssStyle::random(&mut rng);
    st.junk_rules = false;
    st.junk_rulesets = false;
    st.unknown_props = rng.chance(1, 3);
    let author_css = Sheet(author_rules.clone()).to_css(&mut st);
    let user_css = Sheet(user_rules.clone()).to_css(&mut st);
    let body = ser_canonical(&doc);
    let mut input = Vec::new();
    if author_rules.len() >= 2 && rng.chance(1, 2) {
        // two <style> elements at different depths: the first rules deep inside wrappers
        // at the start of the document, the others after the content (document order of
        // the elements is the source order of the cascade)
        let k = rng.range(1, author_rules.len() - 1);
        let first = Sheet(author_rules[..k].to_vec()).to_css(&mut st);
        let second = Sheet(author_rules[k..].to_vec()).to_css(&mut st);
        input.extend_from_slice(format!("<div><div><style>{}</style></div></div>", first).as_bytes());
        input.extend_from_slice(&body);
        input.extend_from_slice(format!("<style>{}</style>", second).as_bytes());
        out.inc("two_style_elements");
    } else {
        if !author_rules.is_empty() {
            input.extend_from_slice(format!("<style>{}</style>", author_css).as_bytes());
        }
        input.extend_from_slice(&body);
    }
    let dom = odom::parse(&input);
    // reference hidden set
    let mut hidden: HashSet<String> = HashSet::new();
    let mut hidden_with_text = 0;
    let mut visible_with_text = 0;
    for (id, nd) in dom.nodes.iter().enumerate() {
        if !matches!(nd.kind, Kind::Element { html: true, .. }) || !dom.attached(id) {
            continue;
        }
        let Some(u) = dom.attr(id, "data-u") else { continue };
        let mut decls: Vec<RefDecl<DispDecl>> = Vec::new();
        for (oi, rules) in [(RefOrigin::User, &user_rules), (RefOrigin::Author, &author_rules)] {
            let mut order = 0;
            for r in rules {
                for s in &r.selectors {
                    if selector_matches(&dom, id, s) {
                        let mut hz = false;
                        let mut oh = false;
                        for d in &r.decls {
                            match &d.kind {
                                DeclKind::DisplayNone => decls.push(RefDecl {
                                    origin: oi,
                                    important: d.important,
                                    inline: false,
                                    spec: s.specificity(),
                                    order,
                                    value: DispDecl { none: true },
                                }),
                                DeclKind::DisplayOther(_) => decls.push(RefDecl {
                                    origin: oi,
                                    important: d.important,
                                    inline: false,
                                    spec: s.specificity(),
                                    order,
                                    value: DispDecl { none: false },
                                }),
                                DeclKind::HeightZero => hz = true,
                                DeclKind::OverflowHidden => oh = true,
                                _ => {}
                            }
                            order += 1;
                        }
                        if hz && oh {
                            decls.push(RefDecl {
                                origin: oi,
                                important: false,
                                inline: false,
                                spec: s.specificity(),
                                order,
                                value: DispDecl { none: true },
                            });
                            order += 1;
                        }
                    }
                }
                order += 1;
            }
        }
        if let Some((_, none)) = inline.iter().find(|(k, _)| k == u) {
            decls.push(RefDecl {
                origin: RefOrigin::Author,
                important: false,
                inline: true,
                spec: (0, 0, 0),
                order: 0,
                value: DispDecl { none: *none },
            });
        }
        let is_hidden = cascade_winner(&decls).map(|d| d.none).unwrap_or(false);
        if is_hidden {
            hidden.insert(u.to_string());
            // count only outermost hidden elements
            let outer = !dom
                .ancestors(id)
                .iter()
                .any(|a| dom.attr(*a, "data-u").map(|x| hidden.contains(x)).unwrap_or(false));
            if outer {
                out.inc("hidden_elements");
                out.inc(&format!("hidden_kind:{}", dom.local_name(id).unwrap_or("?")));
                if has_visible_text(&dom, id) {
                    hidden_with_text += 1;
                }
            }
        } else if has_visible_text(&dom, id) {
            visible_with_text += 1;
        }
    }
    let deleted = ser_canonical(&delete_hidden(&doc, &hidden, true));
    // configurations
    let plain = rng.chance(1, 2);
    let mut cfg_css = if plain { Cfg::plain() } else { Cfg::rich() };
    cfg_css.use_doc_css = true;
    if !user_rules.is_empty() {
        cfg_css.css.push((Origin::User, user_css.clone()));
    }
    let cfg_plain = if plain { Cfg::plain() } else { Cfg::rich() };
    for _ in 0..3 {
        let w = pick_width(&mut rng, 100);
        out.inc("deletion_comparisons");
        // colour rules are allowed in the sheets: rich lines are compared
        // without their colour annotations
        let (a, b, ev): (Outcome<String>, Outcome<String>, Vec<Event>) = if rng.chance(1, 4) {
            // the three-step API (parse_html, dom_to_render_tree, render_to_*) must hide the same
            out.inc("via_three_step_api");
            let st = render_staged(&cfg_css, &input, &[w]);
            let (s, l) = match st {
                Outcome::Ok(mut v) if v.len() == 1 => v.remove(0),
                Outcome::Ok(_) => (Outcome::Err("staged result missing".into()), Outcome::Err("staged result missing".into())),
                Outcome::TooNarrow => (Outcome::TooNarrow, Outcome::TooNarrow),
                Outcome::Err(e) => (Outcome::Err(e.clone()), Outcome::Err(e)),
                Outcome::Panic { msg, loc } => (Outcome::Panic { msg: msg.clone(), loc: loc.clone() }, Outcome::Panic { msg, loc }),
                Outcome::Fuel { site } => (Outcome::Fuel { site: site.clone() }, Outcome::Fuel { site }),
            };
            if plain {
                (s, render_string(&cfg_plain, &deleted, w), Vec::new())
            } else {
                (
                    l.map(|l| format!("{:#?}", strip_colours(l))),
                    render_lines(&cfg_plain, &deleted, w).map(|l| format!("{:#?}", strip_colours(l))),
                    Vec::new(),
                )
            }
        } else if plain {
            let t = render_string_traced(&cfg_css, &input, w);
            (t.out, render_string(&cfg_plain, &deleted, w), t.events)
        } else {
            let t = render_lines_traced(&cfg_css, &input, w);
            (
                t.out.map(|l| format!("{:#?}", strip_colours(l))),
                render_lines(&cfg_plain, &deleted, w).map(|l| format!("{:#?}", strip_colours(l))),
                t.events,
            )
        };
        out.evals += 2;
        count_events(out, &ev);
        if a.is_total() && b.is_total() && a != b {
            let class = if hidden.is_empty() {
                "nothing-hidden"
            } else if competing {
                "competing-display"
            } else {
                "deletion"
            };
            out.violate(
                format!("hidden-differs-from-deleted:{}", class),
                format!("rendering with the hiding CSS differs from rendering the document with the {} hidden subtree(s) deleted (width {})", hidden.len(), w),
                json!({"input": String::from_utf8_lossy(&input), "user_css": user_css, "deleted_document": String::from_utf8_lossy(&deleted),
                       "width": w, "config": cfg_css.describe(),
                       "with_css": a.ok().cloned().unwrap_or_else(|| a.kind()),
                       "deleted": b.ok().cloned().unwrap_or_else(|| b.kind())}),
            );
            return;
        }
        if hidden_with_text > 0 && visible_with_text > 0 {
            out.observe(crate::rng::hash_bytes(&input) ^ w as u64);
        }
    }
    if out.sample.is_none() && !hidden.is_empty() {
        out.sample = Some(json!({"input": show_bytes(&input, 500), "user_css": user_css, "hidden_data_u": hidden.iter().take(8).collect::<Vec<_>>()}));
    }
    // Oracle 2: document CSS is inert unless enabled
    {
        let w = pick_width(&mut rng, 100);
        let stripped = ser_canonical(&delete_hidden(&doc, &HashSet::new(), true));
        let c = if plain { Cfg::plain() } else { Cfg::rich() };
        let a = render_lines(&c, &input, w);
        let b = render_lines(&c, &stripped, w);
        out.evals += 2;
        out.inc("doccss_off_comparisons");
        if a.is_total() && b.is_total() && a != b {
            out.violate(
                "doc-css-effective-without-use_doc_css",
                "with use_doc_css off, <style>/style= in the document changed the output".to_string(),
                json!({"input": String::from_utf8_lossy(&input), "stripped": String::from_utf8_lossy(&stripped), "width": w,
                       "with": format!("{:?}", a), "without": format!("{:?}", b)}),
            );
        }
    }
}

fn strip_colours(lines: Vec<Line>) -> Vec<Line> {
    lines
        .into_iter()
        .map(|l| {
            let mut out: Line = Vec::new();
            for p in l {
                match p {
                    Piece::Str { s, tags } => {
                        let tags: Vec<Ann> = tags
                            .into_iter()
                            .filter(|a| !matches!(a, Ann::Colour(..) | Ann::BgColour(..)))
                            .collect();
                        // merge with previous piece of equal tags (colour boundaries split pieces)
                        if let Some(Piece::Str { s: ps, tags: pt }) = out.last_mut() {
                            if *pt == tags {
                                ps.push_str(&s);
                                continue;
                            }
                        }
                        out.push(Piece::Str { s, tags });
                    }
                    f => out.push(f),
                }
            }
            out
        })
        .collect()
}
