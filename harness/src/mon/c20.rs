//! C20 — selectors match exactly the elements CSS says they match.

use super::common::*;
use super::cssgen::*;
use super::cssref::*;
use crate::ast::{self, El, Fmt, Node};
use crate::exec::*;
use crate::gen::{Profile, Tokens};
use crate::odom::{self, Kind, ODom};
use crate::rng::Rng;
use crate::run::{CaseOut, Monitor, Plan, Tier};
use crate::textutil::*;
use serde_json::json;
use std::collections::HashMap;

pub static MONITOR: Monitor = Monitor {
    id: "C20",
    title: "Selectors match exactly the elements CSS says they match",
    rule: "Documents in which EVERY element owns a direct unique text token and carries classes/ids (mixed-case names, repeated and multiple classes, ids reused across element kinds), nested to depth 6, with text and comment children between element siblings. One rule per render, `sel { color: #010203 }` through add_css, selectors from the supported grammar (element, .class, #id, *, compounds, descendant and child combinators with arbitrary surrounding whitespace, :nth-child(an+b|odd|even), selector lists) up to 4 compound steps. Observation: number of Colour annotations on each element's own token in rich output. Oracle: that number must equal the number of elements among the token's ancestors-or-self (html and body included) matched by the reference matcher (right-to-left with full backtracking, 1-based element index for :nth-child, ASCII-case-insensitive element names, case-sensitive classes and ids, union for lists) on the harness's oracle DOM. Exhaustive part: :nth-child(an+b) for all a,b in -5..=5 in several textual forms on sibling lists of 0..8 elements interleaved with text and comments. Distinct/non-trivial = distinct (selector, document) pairs in which the selector matches at least one and not all elements.",
    assumptions: &[
        "tables are kept out of these documents (row groups are not render nodes, so a colour on them cannot be observed)",
        "the reference matcher works on the generator's selector AST; how the selector is written (whitespace, textual an+b form) is the serialiser's choice",
    ],
    plan,
    run_case,
    thresholds,
    hang_is_violation: false,
    budget: None,
};

const NTH_RANGE: i64 = 11; // -5..=5

fn plan(tier: Tier) -> Plan {
    let ex = (NTH_RANGE * NTH_RANGE) as u64;
    match tier {
        Tier::Quick => Plan {
            cases: ex + 250_000,
            time_cap_s: 40,
            case_timeout_s: 20,
            exhaustive: false,
        },
        Tier::Thorough => Plan {
            cases: ex * 4 + 3_000_000,
            time_cap_s: 420,
            case_timeout_s: 20,
            exhaustive: false,
        },
    }
}

fn thresholds(_t: Tier) -> Vec<(&'static str, u64)> {
    vec![
        ("cases", 1000),
        ("elements_decided", 50_000),
        ("elements_matched", 5000),
        ("nth_pairs_enumerated", 121),
        ("form:descendant", 500),
        ("form:child", 500),
        ("form:nth", 500),
        ("form:star", 300),
        ("form:list", 200),
        ("form:mixed_case_name", 200),
        ("distinct", 1000),
    ]
}

const BLOCK_TAGS: [&str; 4] = ["div", "blockquote", "ul", "p"];
const INLINE_TAGS: [&str; 5] = ["span", "em", "strong", "a", "code"];
// (names such as sm:warn or w-1/2 are written with CSS escapes in the selector: .sm\:warn)
const CLASSES: [&str; 9] = ["c0", "c1", "c2", "Kk", "mainBox", "c1x", "sm:warn", "w-1/2", "a.b"];
const IDS: [&str; 7] = ["i0", "i1", "i2", "Main", "topNav", "i1x", "sec:2"];

struct TreeGen<'a> {
    rng: &'a mut Rng,
    tok: Tokens,
    p: Profile,
}

impl<'a> TreeGen<'a> {
    fn attrs(&mut self, mut e: El) -> El {
        if self.rng.chance(1, 2) {
            let n = self.rng.range(1, 3);
            let mut cls = Vec::new();
            for _ in 0..n {
                cls.push(*self.rng.pick(&CLASSES));
            }
            // class names are separated by any run of ASCII whitespace
            let sep = *self.rng.pick(&[" ", " ", " ", "  ", "\t", "\n", "\x0c", " \n   "]);
            let mut v = cls.join(sep);
            if self.rng.chance(1, 10) {
                v = format!("{}{}{}", sep, v, sep);
            }
            e.attrs.push(("class".into(), v));
        }
        // an anchor's name is not an id: #x must not select <a name=x>
        if e.tag == "a" && self.rng.chance(1, 3) {
            e.attrs.push(("name".into(), self.rng.pick(&IDS).to_string()));
        }
        if self.rng.chance(1, 4) {
            e.attrs.push(("id".into(), self.rng.pick(&IDS).to_string()));
        }
        e
    }
    fn own(&mut self) -> Node {
        let p = self.p.clone();
        Node::Word(self.tok.unique(self.rng, &p))
    }
    fn filler(&mut self, out: &mut Vec<Node>) {
        match self.rng.below(5) {
            0 => out.push(Node::Comment("c".into())),
            1 => {
                out.push(Node::Space);
                let w = self.own();
                out.push(w);
            }
            _ => {}
        }
        out.push(Node::Space);
    }
    fn inline(&mut self, depth: usize) -> Node {
        if self.rng.chance(1, 12) {
            // inline SVG / MathML: elements of another namespace; a type selector without
            // a namespace matches them by local name like any other element
            let (root, mid, leafs): (&str, &str, &[&str]) = if self.rng.chance(1, 2) {
                ("svg", "g", &["text", "title", "desc"])
            } else {
                ("math", "mrow", &["mi", "mo", "mn"])
            };
            let mut leaf_nodes = vec![self.own()];
            for _ in 0..self.rng.range(1, 3) {
                let t = *self.rng.pick(leafs);
                let o = self.own();
                leaf_nodes.push(Node::Space);
                leaf_nodes.push(self.attrs(El::with(t, vec![o])).node());
            }
            let midn = self.attrs(El::with(mid, leaf_nodes)).node();
            let o = self.own();
            return self.attrs(El::with(root, vec![o, Node::Space, midn])).node();
        }
        let tag = *self.rng.pick(&INLINE_TAGS);
        let mut kids = vec![self.own()];
        if depth < 6 {
            let n = self.rng.below(3);
            for _ in 0..n {
                self.filler(&mut kids);
                kids.push(self.inline(depth + 1));
            }
        }
        self.attrs(El::with(tag, kids)).node()
    }
    fn block(&mut self, depth: usize) -> Node {
        let tag = *self.rng.pick(&BLOCK_TAGS);
        match tag {
            "p" => {
                let mut kids = vec![self.own()];
                let n = self.rng.below(4);
                for _ in 0..n {
                    self.filler(&mut kids);
                    kids.push(self.inline(depth + 1));
                }
                self.attrs(El::with("p", kids)).node()
            }
            "ul" => {
                // a ul cannot own text (it would become a bogus item); its items do
                let n = self.rng.range(1, 5);
                let mut items = Vec::new();
                for _ in 0..n {
                    let mut kids = vec![self.own()];
                    if depth < 5 && self.rng.chance(1, 3) {
                        kids.push(Node::Space);
                        kids.push(self.inline(depth + 2));
                    }
                    if depth < 4 && self.rng.chance(1, 4) {
                        kids.push(self.block(depth + 2));
                    }
                    items.push(self.attrs(El::with("li", kids)).node());
                    if self.rng.chance(1, 4) {
                        items.push(Node::Comment("between".into()));
                    }
                }
                self.attrs(El::with("ul", items)).node()
            }
            t => {
                let mut kids = vec![self.own()];
                let n = self.rng.below(4);
                for _ in 0..n {
                    if depth < 5 && self.rng.chance(1, 2) {
                        kids.push(self.block(depth + 1));
                    } else {
                        self.filler(&mut kids);
                        kids.push(self.inline(depth + 1));
                    }
                }
                self.attrs(El::with(t, kids)).node()
            }
        }
    }
}

/// Own token of each element: first Word child (direct text).
fn own_tokens(dom: &ODom) -> Vec<(odom::Id, String)> {
    let mut v = Vec::new();
    for (id, n) in dom.nodes.iter().enumerate() {
        if let Kind::Element { .. } = &n.kind {
            if !dom.attached(id) {
                continue;
            }
            for &c in dom.children(id) {
                if let Kind::Text(t) = dom.kind(c) {
                    if let Some(w) = t.split_whitespace().find(|w| {
                        w.chars().next().map(|c| c.is_ascii_uppercase()).unwrap_or(false)
                    }) {
                        v.push((id, w.to_string()));
                        break;
                    }
                }
            }
        }
    }
    v
}

/// token -> number of Colour annotations on it (None if not found intact).
fn colour_counts(lines: &[Line]) -> HashMap<String, usize> {
    let mut m = HashMap::new();
    for l in lines {
        for p in l {
            if let Piece::Str { s, tags } = p {
                let n = tags.iter().filter(|a| matches!(a, Ann::Colour(1, 2, 3))).count();
                for w in s.split(|c: char| !in_t(c)) {
                    if w.len() >= 4 && w.chars().next().unwrap().is_ascii_uppercase() {
                        m.insert(w.to_string(), n);
                    }
                }
            }
        }
    }
    m
}

pub fn check_selector(
    out: &mut CaseOut,
    dom: &ODom,
    input: &[u8],
    sels: &[Selector],
    css: &str,
) -> bool {
    let mut cfg = Cfg::rich();
    cfg.css.push((Origin::User, css.to_string()));
    let w = 10_000; // nothing wraps: tokens stay intact
    let o = render_lines(&cfg, input, w);
    out.evals += 1;
    let lines = match &o {
        Outcome::Ok(l) => l,
        Outcome::Err(e) if e == "CssParseError" => {
            out.violate(
                "selector-rejected",
                format!("add_css rejected a rule with a supported selector: {:?}", css),
                json!({"css": css}),
            );
            return false;
        }
        _ => return true,
    };
    let counts = colour_counts(lines);
    let toks = own_tokens(dom);
    let mut matched_any = false;
    let mut unmatched_any = false;
    for (el, tok) in &toks {
        let Some(&got) = counts.get(tok) else {
            out.inc("token_not_found");
            continue;
        };
        let mut chain = dom.ancestors(*el);
        chain.push(*el);
        let mut exp = 0;
        for a in &chain {
            if dom.is_element(*a) && any_selector_matches(dom, *a, sels) {
                exp += 1;
            }
        }
        let self_match = any_selector_matches(dom, *el, sels);
        out.inc("elements_decided");
        if self_match {
            out.inc("elements_matched");
            matched_any = true;
        } else {
            unmatched_any = true;
        }
        if got != exp {
            let class = if got > exp { "over-match" } else { "under-match" };
            let form = selector_forms(sels).join("+");
            out.violate(
                format!("selector:{}:{}", class, form),
                format!(
                    "rule {:?}: token {:?} of <{}> is coloured {} time(s) but {} of its ancestors-or-self match by CSS semantics",
                    css.trim(),
                    tok,
                    dom.local_name(*el).unwrap_or("?"),
                    got,
                    exp
                ),
                json!({"css": css, "input": String::from_utf8_lossy(input), "token": tok,
                       "element": dom.local_name(*el), "class": dom.attr(*el, "class"), "id": dom.attr(*el, "id")}),
            );
            return false;
        }
    }
    if matched_any && unmatched_any {
        out.observe(crate::rng::hash_str(css) ^ crate::rng::hash_bytes(input));
    }
    true
}

/// Which selector forms are in play (evidence + signature detail).
fn selector_forms(sels: &[Selector]) -> Vec<&'static str> {
    let mut f = Vec::new();
    let mut add = |s: &'static str| {
        if !f.contains(&s) {
            f.push(s)
        }
    };
    if sels.len() > 1 {
        add("list");
    }
    for s in sels {
        for (c, _) in &s.rest {
            match c {
                Comb::Desc => add("descendant"),
                Comb::Child => add("child"),
            }
        }
        for c in s.compounds() {
            for x in &c.0 {
                match x {
                    Simple::Nth { .. } => add("nth"),
                    Simple::Star => add("star"),
                    Simple::PseudoEl(_) => add("pseudo-element"),
                    Simple::Class(n) | Simple::Id(n) => {
                        if n.chars().any(|c| c.is_ascii_uppercase()) {
                            add("mixed_case_name")
                        }
                    }
                    _ => {}
                }
            }
        }
    }
    f.sort_unstable();
    f
}

fn run_case(seed: u64, idx: u64, tier: Tier, out: &mut CaseOut) {
    let mut rng = Rng::for_case(seed, "C20", idx);
    let ex = (NTH_RANGE * NTH_RANGE) as u64
        * match tier {
            Tier::Quick => 1,
            Tier::Thorough => 4,
        };
    let mut p = Profile::full();
    p.wide_permille = 0;
    p.comb_permille = 0;
    p.long_permille = 0;
    if idx < ex {
        // exhaustive :nth-child(an+b)
        out.inc("nth_pairs_enumerated");
        let k = idx % (NTH_RANGE * NTH_RANGE) as u64;
        let a = (k / NTH_RANGE as u64) as i32 - 5;
        let b = (k % NTH_RANGE as u64) as i32 - 5;
        let mut tok = Tokens::new();
        // sibling lists of 0..8 elements with text and comments in between
        let mut kids: Vec<Node> = Vec::new();
        for n in 0..=8usize {
            let mut items = Vec::new();
            for _ in 0..n {
                if rng.chance(1, 3) {
                    items.push(Node::Comment("x".into()));
                }
                items.push(El::with("li", vec![Node::Word(tok.unique(&mut rng, &p))]).node());
            }
            kids.push(El::with("ul", items).node());
        }
        let doc = vec![El::with("div", kids).node()];
        let input = ast::serialize(&doc, &mut Fmt::canonical());
        let dom = odom::parse(&input);
        // several textual forms of the same (a,b)
        for _ in 0..3 {
            let text = nth_text(&mut rng, a, b);
            let sel = Selector::simple(Compound(vec![
                Simple::Tag("li".into()),
                Simple::Nth { a, b, text },
            ]));
            let css = format!("{} {{ color: #010203 }}", fmt_selector(&sel, &mut CssStyle::canonical()));
            out.inc("form:nth");
            if !check_selector(out, &dom, &input, &[sel], &css) {
                return;
            }
        }
        return;
    }
    if rng.chance(1, 40) {
        // a long chain of wrappers between an ancestor and the subject: the descendant
        // combinator has no depth limit
        out.inc("docs_deep_chain");
        let mut tok = Tokens::new();
        let depth = *rng.pick(&[100usize, 300, 600]);
        let mut html = format!("<div class=\"c0\" id=\"i0\">{} ", tok.unique(&mut rng, &p));
        for k in 0..depth {
            html.push_str(if k % 2 == 0 { "<div>" } else { "<span>" });
        }
        let leaf = tok.unique(&mut rng, &p);
        html.push_str(&format!("<b class=\"c1\">{}</b>", leaf));
        let input = html.into_bytes();
        let dom = odom::parse(&input);
        let sels = [
            Selector { first: Compound(vec![Simple::Class("c0".into())]), rest: vec![(Comb::Desc, Compound(vec![Simple::Tag("b".into())]))] },
            Selector { first: Compound(vec![Simple::Id("i0".into())]), rest: vec![(Comb::Desc, Compound(vec![Simple::Class("c1".into())]))] },
            Selector { first: Compound(vec![Simple::Tag("div".into()), Simple::Class("c0".into())]), rest: vec![(Comb::Desc, Compound(vec![Simple::Tag("span".into())])), (Comb::Child, Compound(vec![Simple::Tag("b".into())]))] },
        ];
        let sel = rng.pick(&sels).clone();
        let css = format!("{} {{ color: #010203 }}", fmt_selector(&sel, &mut CssStyle::canonical()));
        let _ = leaf;
        check_selector(out, &dom, &input, &[sel], &css);
        return;
    }
    let misnested = rng.chance(1, 8);
    let input: Vec<u8> = if misnested {
        // mis-nested formatting elements: the parser's adoption agency moves
        // nodes around (reparenting), which the DOM sink must mirror exactly
        out.inc("docs_misnested");
        let mut tok = Tokens::new();
        let mut t = |rng: &mut Rng| tok.unique(rng, &p);
        let f = *rng.pick(&["b", "em", "strong", "i", "a", "code"]);
        let f2 = *rng.pick(&["em", "i", "s", "b"]);
        let blk = *rng.pick(&["p", "div", "blockquote"]);
        let c = |rng: &mut Rng| *rng.pick(&CLASSES);
        match rng.below(4) {
            0 => format!(
                "<div class=\"{}\">{} <{f} class=\"{}\">{} <{blk} class=\"{}\">{} <span class=\"{}\">{}</span></{f}> {} <em>{}</em></{blk}></div>",
                c(&mut rng), t(&mut rng), c(&mut rng), t(&mut rng), c(&mut rng), t(&mut rng), c(&mut rng), t(&mut rng), t(&mut rng), t(&mut rng)
            ),
            1 => format!(
                "<p class=\"{}\">{} <{f} id=\"{}\">{} <{f2} class=\"{}\">{}</{f}> {}</{f2}> {}</p><p>{}</p>",
                c(&mut rng), t(&mut rng), rng.pick(&IDS), t(&mut rng), c(&mut rng), t(&mut rng), t(&mut rng), t(&mut rng), t(&mut rng)
            ),
            2 => format!(
                "<{f} class=\"{}\">{}<div class=\"{}\">{}<span class=\"{}\">{}</span><ul><li class=\"{}\">{}</li><li>{}</li></ul></{f}>{}</div>",
                c(&mut rng), t(&mut rng), c(&mut rng), t(&mut rng), c(&mut rng), t(&mut rng), c(&mut rng), t(&mut rng), t(&mut rng), t(&mut rng)
            ),
            _ => format!(
                "<div>{}<{f} class=\"{}\"><{f2}>{}<p class=\"{}\">{}<span>{}</span></{f}>{}</p>{}</{f2}></div>",
                t(&mut rng), c(&mut rng), t(&mut rng), c(&mut rng), t(&mut rng), t(&mut rng), t(&mut rng), t(&mut rng)
            ),
        }
        .into_bytes()
    } else {
        let mut g = TreeGen {
            rng: &mut rng,
            tok: Tokens::new(),
            p: p.clone(),
        };
        let nb = g.rng.range(1, 3);
        let doc: Vec<Node> = (0..nb).map(|_| g.block(0)).collect();
        ast::serialize(&doc, &mut Fmt::canonical())
    };
    let dom = odom::parse(&input);
    let vocab = Vocab {
        tags: ["div", "p", "span", "em", "li", "ul", "strong", "blockquote", "a", "code", "body", "b", "i", "svg", "g", "text", "math", "mrow", "mi", "mo"]
            .iter()
            .map(|s| s.to_string())
            .collect(),
        classes: CLASSES.iter().map(|s| s.to_string()).collect(),
        ids: IDS.iter().map(|s| s.to_string()).collect(),
    };
    for _ in 0..4 {
        let nsel = if rng.chance(1, 6) { rng.range(2, 3) } else { 1 };
        let sels: Vec<Selector> = (0..nsel).map(|_| gen_selector(&mut rng, &vocab, 4)).collect();
        let mut st = CssStyle::canonical();
        st.rng = Some(rng.fork());
        let sel_text: Vec<String> = sels.iter().map(|s| fmt_selector(s, &mut st)).collect();
        let css = format!("{} {{ color: #010203 }}", sel_text.join(", "));
        for f in selector_forms(&sels) {
            out.inc(&format!("form:{}", f));
        }
        if out.sample.is_none() {
            out.sample = Some(json!({"css": css, "input": show_bytes(&input, 400)}));
        }
        if !check_selector(out, &dom, &input, &sels, &css) {
            return;
        }
    }
}
