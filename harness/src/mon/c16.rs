//! C16 — custom decorators are honoured verbatim and measured by display width.

use super::c07::{check_block, gen_item, gen_kind, Kind};
use super::common::*;
use crate::ast::{self, El, Fmt, Node};
use crate::exec::*;
use crate::gen::{DocGen, Profile};
use crate::odom;
use crate::rng::Rng;
use crate::run::{CaseOut, Monitor, Plan, Tier};
use crate::textutil::*;
use serde_json::json;

pub static MONITOR: Monitor = Monitor {
    id: "C16",
    title: "Custom decorators are honoured verbatim and measured by display width",
    rule: "A parameterised TextDecorator (in the harness) draws its quote/bullet/ordered/heading prefixes and em/strong/code/strikeout/link/image affixes from {ASCII, 2-byte width-1 (§ • │), 3-byte width-2 (） 〖 〗 》), empty}. Case kinds: (1) the C07 compositional oracle with pw = display width of the prefix and continuation indentation of the same display width, plus the width bound on every line and 'no panic' (debug assertions on); (2) flat paragraph at a non-wrapping width whose expected text is built from the AST: every em/strong/code/s/a/img element's text must be enclosed by exactly the decorator's strings; (3) TrivialDecorator on block-grammar documents incl. <sup>: non-whitespace output minus table border glyphs == visible stream of the oracle DOM. Distinct/non-trivial = distinct (decorator strings, document, width) cases where at least one non-ASCII or empty decorator string was in play (kinds 1,2) or the document contains markup the decorator could decorate (kind 3).",
    assumptions: &[
        "the decorator family returns the same strings on every call (stateless)",
    ],
    plan,
    run_case,
    thresholds,
    hang_is_violation: true,
    budget: None,
};

fn plan(tier: Tier) -> Plan {
    match tier {
        Tier::Quick => Plan {
            cases: 300_000,
            time_cap_s: 40,
            case_timeout_s: 20,
            exhaustive: false,
        },
        Tier::Thorough => Plan {
            cases: 4_000_000,
            time_cap_s: 420,
            case_timeout_s: 20,
            exhaustive: false,
        },
    }
}

fn thresholds(_t: Tier) -> Vec<(&'static str, u64)> {
    vec![
        ("cases", 1000),
        ("blocks_compared", 1500),
        ("affix_docs", 500),
        ("trivial_docs", 500),
        ("specs_with_non_ascii_prefix", 500),
        ("specs_with_wide_prefix", 200),
        ("distinct", 1000),
    ]
}

const QUOTES: [&str; 7] = ["> ", "| ", "│ ", "》 ", "", "§ ", "〖"];
const BULLETS: [&str; 6] = ["* ", "- ", "• ", "〗 ", "", "·"];
const OL_SUFFIX: [&str; 5] = [". ", ") ", "） ", "§ ", "."];
const H_UNIT: [&str; 5] = ["#", "=", "§", "〖", ""];
const H_TAIL: [&str; 3] = [" ", "", "》"];
const AFFIX: [(&str, &str); 7] = [
    ("*", "*"),
    ("_", "_"),
    ("〖", "〗"),
    ("§", "§"),
    ("", ""),
    ("<<", ">>"),
    ("（", "）"),
];

pub fn gen_spec(rng: &mut Rng) -> CustomSpec {
    let mut pick = |rng: &mut Rng| {
        let a = rng.pick(&AFFIX);
        (a.0.to_string(), a.1.to_string())
    };
    CustomSpec {
        quote: rng.pick(&QUOTES).to_string(),
        bullet: rng.pick(&BULLETS).to_string(),
        ol_suffix: rng.pick(&OL_SUFFIX).to_string(),
        header_unit: rng.pick(&H_UNIT).to_string(),
        header_tail: rng.pick(&H_TAIL).to_string(),
        em: pick(rng),
        strong: pick(rng),
        code: pick(rng),
        strike: pick(rng),
        link: pick(rng),
        img: pick(rng),
    }
}

fn non_ascii(s: &str) -> bool {
    !s.is_ascii()
}
fn wide(s: &str) -> bool {
    s.chars().any(|c| cw(c) == 2)
}

/// Expected text of a flat inline run under a custom decorator.
fn expected_inline(nodes: &[Node], spec: &CustomSpec, out: &mut String, strike: bool) {
    for n in nodes {
        match n {
            Node::Word(w) if strike => {
                // unicode strikeout: U+0336 after every character that has width
                for c in w.chars() {
                    out.push(c);
                    if cw(c) > 0 {
                        out.push('\u{336}');
                    }
                }
            }
            Node::Word(w) => out.push_str(w),
            Node::Space => out.push(' '),
            Node::El(e) => {
                let (a, b): (&str, &str) = match e.tag.as_str() {
                    "em" | "i" => (&spec.em.0, &spec.em.1),
                    "strong" => (&spec.strong.0, &spec.strong.1),
                    "code" => (&spec.code.0, &spec.code.1),
                    "s" | "del" => (&spec.strike.0, &spec.strike.1),
                    "a" => (&spec.link.0, &spec.link.1),
                    "img" => {
                        out.push_str(&spec.img.0);
                        out.push_str(e.get_attr("alt").unwrap_or(""));
                        out.push_str(&spec.img.1);
                        continue;
                    }
                    _ => ("", ""),
                };
                out.push_str(a);
                let inner_strike = strike || (strike_on(spec) && matches!(e.tag.as_str(), "s" | "del"));
                expected_inline(&e.children, spec, out, inner_strike);
                out.push_str(b);
            }
            _ => {}
        }
    }
}

// The strikeout mode of the current case (the spec itself does not carry it).
thread_local! {
    static STRIKE_ON: std::cell::Cell<bool> = const { std::cell::Cell::new(false) };
}
fn strike_on(_spec: &CustomSpec) -> bool {
    STRIKE_ON.with(|s| s.get())
}

/// words separated by single spaces with simple (non-nested-space) markup
fn gen_affix_doc(rng: &mut Rng, plain_strike: bool) -> Vec<Node> {
    let mut p = Profile::full().no_tables().no_pre();
    p.br = false;
    p.sup = false;
    p.wide_permille = 50;
    p.long_permille = 0;
    let mut g = DocGen::new(rng, p);
    let mut nodes: Vec<Node> = Vec::new();
    let n = g.rng.range(3, 8);
    let tags = ["em", "strong", "code", "s", "a", "img", "i", "del"];
    for i in 0..n {
        if i > 0 {
            nodes.push(Node::Space);
        }
        if g.rng.chance(1, 8) {
            // an element without any rendered content still gets its affixes
            let t = *g.rng.pick(&["em", "strong", "code", "s", "i", "del"]);
            let inner = match g.rng.below(3) {
                0 => vec![],
                1 => vec![Node::Comment("c".into())],
                _ => vec![El::new("span").node()],
            };
            nodes.push(El::with(t, inner).node());
        } else if g.rng.chance(1, 2) {
            let t = *g.rng.pick(&tags);
            match t {
                "img" => {
                    let alt = match g.word() {
                        Node::Word(w) => w,
                        _ => unreachable!(),
                    };
                    nodes.push(El::new("img").attr("src", "/1").attr("alt", &alt).node());
                }
                "a" => {
                    let inner = vec![g.word(), Node::Space, g.word()];
                    // (an empty or blank target is still a link)
                    let href = *g.rng.pick(&["/2", "/2", "/2", "", " ", "#"]);
                    nodes.push(El::with("a", inner).attr("href", href).node());
                }
                t => {
                    let mut inner = vec![g.word()];
                    let may_nest = !(plain_strike && matches!(t, "s" | "del"));
                    if may_nest && g.rng.chance(1, 3) {
                        // nested markup, no edge spaces
                        let t2 = *g.rng.pick(&["em", "strong", "code"]);
                        if t2 != t {
                            inner.push(Node::Space);
                            inner.push(El::with(t2, vec![g.word()]).node());
                        }
                    }
                    nodes.push(El::with(t, inner).node());
                }
            }
        } else {
            nodes.push(g.word());
        }
    }
    nodes
}

fn run_case(seed: u64, idx: u64, _tier: Tier, out: &mut CaseOut) {
    let mut rng = Rng::for_case(seed, "C16", idx);
    match idx % 4 {
        0 | 1 => {
            // (1) compositional oracle under a custom decorator
            let spec = gen_spec(&mut rng);
            let (kind, n) = gen_kind(&mut rng);
            let rel: &str = match &kind {
                Kind::Ul => &spec.bullet,
                Kind::Ol(_) => &spec.ol_suffix,
                Kind::Quote => &spec.quote,
                Kind::H(_) => &spec.header_unit,
                Kind::Dd => "",
            };
            let interesting = non_ascii(rel) || rel.is_empty();
            if non_ascii(rel) {
                out.inc("specs_with_non_ascii_prefix");
            }
            if wide(rel) {
                out.inc("specs_with_wide_prefix");
            }
            let inline_only = matches!(kind, Kind::H(_));
            let items: Vec<Vec<Node>> = (0..n)
                .map(|_| gen_item(&mut rng, if n > 4 { 1 } else { 2 }, inline_only || n > 4))
                .collect();
            let dt = gen_item(&mut rng, 0, true);
            let mut cfg = Cfg::new(Deco::Custom(spec));
            cfg.footnotes = Some(false);
            for _ in 0..2 {
                let w = rng.range(4, 80);
                let r = check_block(out, &kind, &items, &dt, &cfg, w, "C16");
                if !r.ok {
                    return;
                }
                // width bound on the block itself
                let doc = super::c07::build_block(&kind, &items, &dt);
                let input = ast::serialize(&doc, &mut Fmt::canonical());
                if let Outcome::Ok(s) = render_string(&cfg, &input, w) {
                    out.evals += 1;
                    for l in s.lines() {
                        if sw_min(l) > w {
                            out.violate(
                                format!("C16:overwide:{}", kind.name()),
                                format!("custom decorator: line {:?} is {} wide, limit {}", l, sw_min(l), w),
                                witness(&input, w, &cfg, json!({"line": l})),
                            );
                            return;
                        }
                    }
                    if interesting && r.compared {
                        out.observe(crate::rng::hash_str(&s) ^ w as u64);
                    }
                    // the same block through the three-step API with the tree built under a
                    // different decorator: the custom decorator's strings and widths must be
                    // the ones that count
                    let build = cross_build_cfg(&cfg, rng.next());
                    let cr = render_cross(&build, &cfg, &input, &[w]);
                    out.evals += 1;
                    out.inc("cross_decorator_renderings");
                    let got = match &cr {
                        Outcome::Ok(v) => v[0].clone(),
                        o => o.clone().map(|_| String::new()),
                    };
                    if got != Outcome::Ok(s.clone()) {
                        out.violate(
                            format!("C16:tree-built-under-another-decorator:{}", if got.is_ok() { "text" } else { "outcome" }),
                            format!(
                                "a tree built under the {} decorator and rendered with the custom decorator gives {} instead of the one-shot result",
                                build.deco.name(),
                                match &got { Outcome::Ok(t) => format!("{:?}", truncate(t, 80)), o => o.kind() }
                            ),
                            witness(&input, w, &cfg, json!({"one_shot": s, "build_config": build.describe()})),
                        );
                        return;
                    }
                }
            }
        }
        2 => {
            // (2) affixes verbatim
            out.inc("affix_docs");
            let spec = gen_spec(&mut rng);
            // with unicode strikeout on, <s>/<del> hold plain words only (affixes of
            // elements nested in struck text would be struck too)
            let strike = rng.chance(1, 2);
            STRIKE_ON.with(|s| s.set(strike));
            let nodes = gen_affix_doc(&mut rng, strike);
            let mut expected = String::new();
            expected_inline(&nodes, &spec, &mut expected, false);
            // an element that contributes nothing at all (no content, empty affixes)
            // leaves two collapsible spaces next to each other, or one at an edge
            let expected_raw = expected.clone();
            let expected = expected.split(' ').filter(|x| !x.is_empty()).collect::<Vec<_>>().join(" ");
            // the same run inside <pre> (single spaces, one line): affixes are drawn there too
            let in_pre = rng.chance(1, 5);
            if in_pre {
                out.inc("affix_docs_in_pre");
            }
            // (inside <pre> every space of the source is kept)
            let expected = if in_pre { expected_raw.trim_end_matches(' ').to_string() } else { expected };
            let doc = vec![El::with(if in_pre { "pre" } else { "p" }, nodes).node()];
            let input = ast::serialize(&doc, &mut Fmt::canonical());
            let mut cfg = Cfg::new(Deco::Custom(spec.clone()));
            cfg.footnotes = Some(false);
            cfg.strikeout = Some(strike);
            let w = 1000;
            let o = render_string(&cfg, &input, w);
            out.evals += 1;
            match &o {
                Outcome::Ok(s) => {
                    let got = s.trim_end_matches('\n');
                    if got != expected {
                        out.violate(
                            "C16:affix-not-verbatim",
                            format!("custom decorator affixes: expected {:?} got {:?}", expected, got),
                            witness(&input, w, &cfg, json!({"expected": expected, "got": got})),
                        );
                    } else {
                        out.observe(crate::rng::hash_str(got));
                        if out.sample.is_none() {
                            out.sample = Some(sample(&input, w, &cfg, got));
                        }
                    }
                }
                o2 => {
                    if !o2.is_total() {
                        out.violate(
                            format!("C16:{}", o2.fail_sig()),
                            format!("rendering with the custom decorator gave {}", o2.kind()),
                            witness(&input, w, &cfg, json!({})),
                        );
                    }
                }
            }
            // and wrapped: the bound must hold and the text must survive
            let w2 = rng.range(4, 40);
            if let Outcome::Ok(s) = render_string(&cfg, &input, w2) {
                out.evals += 1;
                for l in s.lines() {
                    if sw_min(l) > w2 {
                        out.violate(
                            "C16:overwide:affix-paragraph",
                            format!("custom decorator: line {:?} is {} wide, limit {}", l, sw_min(l), w2),
                            witness(&input, w2, &cfg, json!({"line": l})),
                        );
                        return;
                    }
                }
                if nonspace(&s) != nonspace(&expected) {
                    out.violate(
                        "C16:affix-lost-when-wrapped",
                        "wrapped output does not contain the same characters as the unwrapped one".to_string(),
                        witness(&input, w2, &cfg, json!({"expected_nonspace": nonspace(&expected), "got": s})),
                    );
                }
            }
        }
        _ => {
            // (3) TrivialDecorator: nothing but text, whitespace and borders
            out.inc("trivial_docs");
            let mut p = Profile::full();
            p.sup = true;
            let doc = gen_doc(&mut rng, &p);
            let input = ser_canonical(&doc);
            let cfg = Cfg::trivial();
            let w = rng.range(4, 80);
            let dom = odom::parse(&input);
            if let Outcome::Ok(s) = render_string(&cfg, &input, w) {
                out.evals += 1;
                let v: String = odom::visible_string(&dom);
                let got: String = s
                    .chars()
                    .filter(|c| !c.is_whitespace() && !is_box(*c) && *c != '/' && *c != '\u{336}')
                    .collect();
                let exp: String = v.chars().filter(|c| *c != '/').collect();
                let mut a: Vec<char> = got.chars().collect();
                let mut b: Vec<char> = exp.chars().collect();
                a.sort_unstable();
                b.sort_unstable();
                if a != b {
                    // what was invented?
                    let extra: String = {
                        let mut m = std::collections::HashMap::new();
                        for c in &b {
                            *m.entry(*c).or_insert(0i64) += 1;
                        }
                        let mut e = String::new();
                        for c in &a {
                            let n = m.entry(*c).or_insert(0);
                            if *n > 0 {
                                *n -= 1
                            } else if e.chars().count() < 6 {
                                e.push(*c)
                            }
                        }
                        e
                    };
                    if !extra.is_empty() {
                        out.violate(
                            format!("C16:trivial-invents:{}", extra.chars().take(3).collect::<String>()),
                            format!("TrivialDecorator output contains characters that are not document text: {:?}", extra),
                            witness(&input, w, &cfg, json!({"output": truncate(&s, 800)})),
                        );
                    }
                    // losses are C03's subject (known findings there)
                } else {
                    out.observe(crate::rng::hash_str(&s));
                }
            }
        }
    }
}
