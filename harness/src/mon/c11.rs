//! C11 — width errors: the overflow option always succeeds and is otherwise a no-op.

use super::common::*;
use crate::ast::{self, Node};
use crate::exec::*;
use crate::gen::{self, Profile};
use crate::rng::Rng;
use crate::run::{CaseOut, Monitor, Plan, Tier};
use crate::textutil::*;
use serde_json::json;

pub static MONITOR: Monitor = Monitor {
    id: "C11",
    title: "Width errors: overflow option always succeeds and is otherwise a no-op",
    rule: "A case is a document (grammar; 1 in 4 byte-mutated) with an option mix o (decorators plain/plain_no_decorate/rich/trivial/ASCII-custom; min_wrap_width k in {0..8,20}, max_wrap, pad, raw, no borders) rendered as a triple: width 0, (w,o), (w,o+allow_width_overflow) for several w in 1..=60. Oracle: (a) width 0 gives Err(TooNarrow) with and without overflow; (b) with overflow and w>=1 the result is Ok (fuel exhaustion / panic / TooNarrow are violations); (c) Ok(s) without overflow implies Ok(s) with overflow, byte-equal; (d) for table-free grammar documents every line with overflow is at most max(w, P + max(min_wrap_width,5)) wide, P = largest summed prefix width of a nested block chain computed from the generator's AST. Distinct/non-trivial = distinct overflow outputs in which some line exceeds w, plus distinct pairs where only the overflow run succeeded.",
    assumptions: &[
        "P is computed for the built-in and ASCII custom decorators from the AST (blockquote/ul/dd 2, hN N+1, ol widest marker)",
    ],
    plan,
    run_case,
    thresholds,
    hang_is_violation: true,
    budget: None,
};

fn plan(tier: Tier) -> Plan {
    match tier {
        Tier::Quick => Plan {
            cases: 160_000,
            time_cap_s: 40,
            case_timeout_s: 10,
            exhaustive: false,
        },
        Tier::Thorough => Plan {
            cases: 3_000_000,
            time_cap_s: 420,
            case_timeout_s: 10,
            exhaustive: false,
        },
    }
}

fn thresholds(_t: Tier) -> Vec<(&'static str, u64)> {
    vec![
        ("cases", 1000),
        ("pairs", 3000),
        ("only_overflow_succeeded", 200),
        ("both_ok_equal", 500),
        ("overflow_lines_wider_than_w", 100),
        ("bound_checked_docs", 300),
        ("distinct", 100),
    ]
}

/// Largest total prefix width over chains of nested blocks.
pub fn max_prefix(nodes: &[Node], deco: &Deco) -> usize {
    fn ol_width(e: &ast::El, deco: &Deco) -> usize {
        let n = e
            .children
            .iter()
            .filter(|c| matches!(c, Node::El(x) if x.tag == "li"))
            .count() as i64;
        let start: i64 = e
            .get_attr("start")
            .and_then(|s| s.parse().ok())
            .unwrap_or(1);
        let last = start + n - 1;
        let f = |i: i64| -> usize {
            match deco {
                Deco::Trivial => 0,
                Deco::Custom(s) => sw(&s.ol_prefix(i)),
                _ => format!("{}. ", i).len(),
            }
        };
        f(start).max(f(last))
    }
    fn rec(nodes: &[Node], deco: &Deco) -> usize {
        let mut best = 0;
        for n in nodes {
            if let Node::El(e) = n {
                let own = match e.tag.as_str() {
                    "blockquote" => match deco {
                        Deco::Trivial => 0,
                        Deco::Custom(s) => sw(&s.quote),
                        _ => 2,
                    },
                    "ul" => match deco {
                        Deco::Trivial => 0,
                        Deco::Custom(s) => sw(&s.bullet),
                        _ => 2,
                    },
                    "ol" => ol_width(e, deco),
                    "dd" => 2,
                    "h1" | "h2" | "h3" | "h4" | "h5" | "h6" => {
                        let lvl = e.tag[1..].parse::<usize>().unwrap_or(1);
                        match deco {
                            Deco::Trivial => 0,
                            Deco::Custom(s) => sw(&s.header_prefix(lvl)),
                            _ => lvl + 1,
                        }
                    }
                    _ => 0,
                };
                best = best.max(own + rec(&e.children, deco));
            }
        }
        best
    }
    rec(nodes, deco)
}

fn run_case(seed: u64, idx: u64, _tier: Tier, out: &mut CaseOut) {
    let mut rng = Rng::for_case(seed, "C11", idx);
    let mut p = Profile::full();
    let table_free = rng.chance(1, 2);
    if table_free {
        p = p.no_tables();
        p.max_depth = 6;
    }
    if rng.chance(1, 3) {
        p.boundary = Some(rng.range(1, 12));
    }
    p.wide_permille = *rng.pick(&[0usize, 100, 300]);
    let doc = gen_doc(&mut rng, &p);
    let mut input = ser_canonical(&doc);
    let mutated = rng.chance(1, 4);
    if mutated {
        let nops = rng.range(1, 5);
        input = gen::mutate(&mut rng, &input, nops, &gen::HOSTILE_DICT);
    }
    let mut cfg = Cfg::new(any_deco(&mut rng));
    if rng.chance(1, 2) {
        cfg.min_wrap = Some(*rng.pick(&[0usize, 1, 2, 3, 4, 5, 6, 7, 8, 20]));
    }
    if rng.chance(1, 5) {
        cfg.max_wrap = Some(*rng.pick(&[1usize, 2, 5, 10, 40]));
    }
    if rng.chance(1, 6) {
        cfg.pad = true;
    }
    if rng.chance(1, 8) {
        cfg.raw = true;
    }
    if rng.chance(1, 8) {
        cfg.no_borders = true;
    }
    if rng.chance(1, 6) {
        cfg.footnotes = Some(rng.chance(1, 2));
    }
    let mut over = cfg.clone();
    over.overflow = true;

    // (a) width 0
    for c in [&cfg, &over] {
        let z = render_string(c, &input, 0);
        out.evals += 1;
        out.inc("width0_calls");
        if z != Outcome::TooNarrow && z.is_total() {
            out.violate(
                "width0-not-too-narrow",
                format!("width 0 gave {} instead of Err(TooNarrow)", z.kind()),
                witness(&input, 0, c, json!({})),
            );
        }
    }
    let bound_p = if table_free && !mutated {
        Some(max_prefix(&doc, &cfg.deco))
    } else {
        None
    };
    if bound_p.is_some() {
        out.inc("bound_checked_docs");
    }
    let nw = 4;
    for _ in 0..nw {
        let w = match rng.below(4) {
            0 => rng.range(1, 4),
            1 => rng.range(1, 12),
            _ => rng.range(1, 60),
        };
        let plain_run = render_string(&cfg, &input, w);
        let t = render_string_traced(&over, &input, w);
        out.evals += 2;
        out.inc("pairs");
        count_events(out, &t.events);
        let over_run = t.out;
        // (b)
        match &over_run {
            Outcome::Ok(_) => {}
            o => {
                out.violate(
                    format!("overflow-not-ok:{}", o.fail_sig_or_narrow()),
                    format!("with allow_width_overflow at width {} the result is {} instead of Ok", w, o.kind()),
                    witness(&input, w, &over, json!({"without_overflow": plain_run.kind()})),
                );
                continue;
            }
        }
        let so = over_run.ok().unwrap();
        // (c)
        match &plain_run {
            Outcome::Ok(s) => {
                if s == so {
                    out.inc("both_ok_equal");
                } else {
                    out.violate(
                        "overflow-changes-ok-output",
                        format!("rendering succeeds at width {} without overflow, but allowing overflow changes the output", w),
                        witness(&input, w, &cfg, json!({"without": s, "with_overflow": so})),
                    );
                }
            }
            Outcome::TooNarrow => {
                out.inc("only_overflow_succeeded");
                out.observe(crate::rng::hash_str(so) ^ 0x5555);
            }
            _ => {}
        }
        // (d)
        let maxw = so.lines().map(sw_min).max().unwrap_or(0);
        if maxw > w {
            out.inc("overflow_lines_wider_than_w");
            out.observe(crate::rng::hash_str(so));
            out.max("excess_over_w", (maxw - w) as u64);
            if out.sample.is_none() {
                out.sample = Some(sample(&input, w, &over, so));
            }
        }
        if let Some(pfx) = bound_p {
            let bound = w.max(pfx + cfg.min_wrap_eff().max(5));
            if maxw > bound {
                let line = so.lines().find(|l| sw_min(l) == maxw).unwrap_or("");
                out.violate(
                    "overflow-bound-exceeded",
                    format!(
                        "with overflow at width {} a line is {} wide; bound max(w, P + max(min_wrap,5)) = {} (P={})",
                        w, maxw, bound, pfx
                    ),
                    witness(&input, w, &over, json!({"line": line, "P": pfx, "bound": bound})),
                );
            }
        }
    }
}

trait FailSigOrNarrow {
    fn fail_sig_or_narrow(&self) -> String;
}
impl<T> FailSigOrNarrow for Outcome<T> {
    fn fail_sig_or_narrow(&self) -> String {
        match self {
            Outcome::TooNarrow => "TooNarrow".into(),
            o => o.fail_sig(),
        }
    }
}
