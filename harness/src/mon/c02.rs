//! C02 — no output line is wider than the requested width.

use super::common::*;
use crate::exec::*;
use crate::gen::{self, Profile};
use crate::rng::Rng;
use crate::run::{CaseOut, Monitor, Plan, Tier};
use crate::textutil::*;
use serde_json::json;

pub static MONITOR: Monitor = Monitor {
    id: "C02",
    title: "No output line is wider than the requested width",
    rule: "Grammar documents biased to the width boundary (words of w-1,w,w+1 and >>w columns, stacked prefixes, tables with colspans/nested tables/tiny and empty cells, pre with tabs, long hrefs in footnotes, wide and zero-width characters) and byte-mutated documents, widths 1..=120, decorators plain/plain_no_decorate/rich/trivial/ASCII-custom x option subsets without allow_width_overflow and without no_link_wrapping; both string_from_read and lines_from_read. Oracle: for every line of an Ok result min(UnicodeWidthStr::width(line), sum of char widths) <= w. Distinct/non-trivial = distinct Ok outputs containing at least one line of width >= w-1 (a line at or next to the bound).",
    assumptions: &[
        "display width is what unicode-width 0.2 reports",
        "a line is over-wide only if both width measures exceed the limit",
    ],
    plan,
    run_case,
    thresholds,
    hang_is_violation: false,
    budget: None,
};

fn plan(tier: Tier) -> Plan {
    match tier {
        Tier::Quick => Plan {
            cases: 300_000,
            time_cap_s: 40,
            case_timeout_s: 20,
            exhaustive: false,
        },
        Tier::Thorough => Plan {
            cases: 5_000_000,
            time_cap_s: 600,
            case_timeout_s: 20,
            exhaustive: false,
        },
    }
}

fn thresholds(_t: Tier) -> Vec<(&'static str, u64)> {
    vec![
        ("cases", 1000),
        ("lines_measured", 10_000),
        ("lines_at_bound", 500),
        ("distinct", 200),
        ("docs_with_table", 100),
        ("docs_with_pre", 50),
        ("footnote_docs", 50),
    ]
}

pub fn check_lines(
    out: &mut CaseOut,
    lines: &[&str],
    w: usize,
    input: &[u8],
    cfg: &Cfg,
    events: &[Event],
    route: &str,
) -> bool {
    let mut ok = true;
    let mut at_bound = false;
    for (ln, l) in lines.iter().enumerate() {
        out.inc("lines_measured");
        let lw = sw_min(l);
        if lw + 1 >= w {
            at_bound = true;
            out.inc("lines_at_bound");
        }
        if lw > w {
            ok = false;
            let (stacked, side) = table_layouts(events);
            let class = classify(l, stacked, side, cfg);
            out.violate(
                format!("overwide:{}", class),
                format!(
                    "{}: line {} is {} columns wide, limit {} ({})",
                    route, ln, lw, w, class
                ),
                witness(
                    input,
                    w,
                    cfg,
                    json!({"line": l, "line_width": lw, "route": route,
                           "stacked_table_seen": stacked, "side_by_side_table_seen": side}),
                ),
            );
            break;
        }
    }
    if at_bound {
        out.inc("outputs_at_bound");
    }
    ok
}

/// Coarse cause classification used in the signature.
fn classify(line: &str, stacked: bool, side: bool, cfg: &Cfg) -> &'static str {
    let has_box = line.chars().any(is_box);
    if line.trim_start().starts_with('[') && line.contains("]: ") {
        return "footnote";
    }
    if cfg.raw && (stacked || side) {
        return "raw-table";
    }
    if stacked && !side {
        return "stacked-table";
    }
    if has_box || side {
        if stacked {
            return "mixed-table";
        }
        return "side-by-side-table";
    }
    "text"
}

fn run_case(seed: u64, idx: u64, _tier: Tier, out: &mut CaseOut) {
    let mut rng = Rng::for_case(seed, "C02", idx);
    let w = pick_width(&mut rng, 120);
    let mut p = Profile::full();
    match rng.below(4) {
        0 => p.boundary = Some(w),
        1 => p.boundary = Some((w / 2).max(1)),
        _ => {}
    }
    p.href_controls = rng.chance(1, 3);
    p.wide_permille = *rng.pick(&[0usize, 80, 300]);
    p.comb_permille = *rng.pick(&[0usize, 40, 150]);
    if rng.chance(1, 3) {
        p.max_depth = 6;
    }
    let mut doc = gen_doc(&mut rng, &p);
    // inline elements that preserve white space (CSS white-space: pre / pre-wrap) in the
    // middle of normal text, their content starting with a tab or with spaces
    let mut ws_css = false;
    if rng.chance(1, 8) {
        let mut added = 0;
        crate::ast::for_each_el_mut(&mut doc, &mut |e| {
            if added >= 3 || !matches!(e.tag.as_str(), "p" | "li" | "div" | "td" | "blockquote" | "dd") {
                return;
            }
            let words: Vec<usize> = e.children.iter().enumerate().filter(|(_, n)| matches!(n, crate::ast::Node::Word(_))).map(|(i, _)| i).collect();
            if words.is_empty() || !rng.chance(1, 2) {
                return;
            }
            let wi = *rng.pick(&words);
            let lead = *rng.pick(&["\t", "\t\t", "  ", " \t", "\u{3000}\t", ""]);
            let body = format!("{}pq{}rs", lead, rng.pick(&[" ", "\t", "  "]));
            let style = *rng.pick(&["white-space:pre", "white-space: pre-wrap", "white-space:pre"]);
            let el = crate::ast::El::with(*rng.pick(&["span", "em", "code"]), vec![crate::ast::Node::Raw(body)]).attr("style", style);
            e.children.insert(wi + 1, el.node());
            if rng.chance(2, 3) {
                e.children.insert(wi + 1, crate::ast::Node::Space);
            }
            added += 1;
        });
        if added > 0 {
            ws_css = true;
            out.inc("docs_with_css_preserved_inline_space");
        }
    }
    let mut input = if rng.chance(2, 3) {
        ser_canonical(&doc)
    } else {
        ser_varied(&doc, &mut rng)
    };
    let mutated = rng.chance(1, 5);
    if mutated {
        let nops = rng.range(1, 5);
        input = gen::mutate(&mut rng, &input, nops, &gen::HOSTILE_DICT);
        out.inc("docs_mutated");
    }
    if !mutated && rng.chance(1, 8) {
        // emoji / variation-selector / joiner / jamo sequences: both width measures must stay within w
        let pm = *rng.pick(&[30usize, 150]);
        input = gen::sprinkle_unicode(&mut rng, &input, pm);
        out.inc("docs_with_unicode_sequences");
    }
    if crate::ast::has_tag(&doc, "table") {
        out.inc("docs_with_table");
    }
    if crate::ast::has_tag(&doc, "pre") {
        out.inc("docs_with_pre");
    }
    let mut cfg = Cfg::new(any_deco(&mut rng));
    layout_opts(&mut rng, &mut cfg, w);
    if ws_css {
        cfg.use_doc_css = true;
    }
    if rng.chance(1, 10) {
        // no minimum at all: a prefixed block may be left with zero columns
        cfg.min_wrap = Some(0);
        out.inc("cfg:min_wrap_0");
    }
    if cfg.footnotes_on() && crate::ast::has_tag(&doc, "a") {
        out.inc("footnote_docs");
    }
    // a second, neighbouring width for the same document
    let w2 = if rng.chance(1, 2) { w + 1 } else { w.saturating_sub(1).max(1) };
    for &width in &[w, w2] {
        let t = render_string_traced(&cfg, &input, width);
        out.evals += 1;
        count_events(out, &t.events);
        match &t.out {
            Outcome::Ok(s) => {
                out.inc("ok");
                let lines: Vec<&str> = s.lines().collect();
                let ok = check_lines(out, &lines, width, &input, &cfg, &t.events, "string_from_read");
                if lines.iter().any(|l| sw_min(l) + 1 >= width) {
                    out.observe(crate::rng::hash_str(s));
                }
                if out.sample.is_none() && !s.is_empty() {
                    out.sample = Some(sample(&input, width, &cfg, s));
                }
                if !ok {
                    continue;
                }
            }
            Outcome::TooNarrow => out.inc("too_narrow"),
            _ => out.inc("not_total(see C01)"),
        }
    }
    // lines route once
    let l = render_lines(&cfg, &input, w);
    out.evals += 1;
    if let Outcome::Ok(ls) = &l {
        let texts: Vec<String> = ls.iter().map(line_text).collect();
        let refs: Vec<&str> = texts.iter().map(|s| s.as_str()).collect();
        check_lines(out, &refs, w, &input, &cfg, &[], "lines_from_read");
    }
}
