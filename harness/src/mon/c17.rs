//! C17 — CSS never breaks rendering; insignificant CSS syntax does not matter.

use super::common::*;
use super::cssgen::*;
use crate::exec::*;
use crate::gen::Profile;
use crate::rng::Rng;
use crate::run::{CaseOut, Monitor, Plan, Tier};
use crate::textutil::*;
use serde_json::json;

pub static MONITOR: Monitor = Monitor {
    id: "C17",
    title: "CSS never breaks rendering; insignificant CSS syntax does not matter",
    rule: "Three case kinds. (a) totality: strings from three generators - random bytes as lossy UTF-8, token soup over the CSS token alphabet (idents, #, ., :, ;, braces, brackets, strings with and without terminators, escapes, @-keywords, 11+ digit numbers, %, !, <!--, -->, open/closed comments, :nth-child( fragments, NUL, non-ASCII), truncations and token deletions of valid sheets - are given to add_css and add_agent_css: the result must be Ok or Err(CssParseError) (panic, fuel exhaustion at the hooked tokenizer loop, other errors and watchdog timeouts are violations). (b) inertness: a document with <style>s</style> or style=\"s\" rendered with use_doc_css must succeed exactly when the document without s does, with the same token text, unless s parses to a display/content/white-space declaration (decided from html2text::dom_to_parsed_style; such cases are counted and skipped). (c) syntax independence: a valid sheet S from the supported grammar (selector lists over element/class/id/universal/compound/child/descendant/:nth-child; color/background/background-color/display:none; named, #rgb, #rrggbb, rgb() colours; !important) and a variant v(S) (minified, pretty-printed, comments between tokens, upper/mixed-case property names and hex digits, final ';' dropped or doubled, unknown properties interleaved, unknown at-rules and unparsable rule sets between rules) must give identical rich tagged lines on a class/id-rich document, through add_css and through <style> (where the variant document may also carry a broken <style> element of its own in front; in (b) a well-formed second <style> with display:none rules may follow the one under test and must keep its effect). Distinct/non-trivial = distinct CSS strings that are accepted (a), distinct (document, s) pairs (b), distinct (S, v(S)) pairs where the variant differs as text and S styles at least one token (c).",
    assumptions: &[
        "selector names in (c) are lower-case (case sensitivity of class/id names is C20's subject)",
        "(b) skips style strings containing '</style' or a quote that would end the attribute",
    ],
    plan,
    run_case,
    thresholds,
    hang_is_violation: true,
    budget: None,
};

fn plan(tier: Tier) -> Plan {
    match tier {
        Tier::Quick => Plan {
            cases: 450_000,
            time_cap_s: 40,
            case_timeout_s: 10,
            exhaustive: false,
        },
        Tier::Thorough => Plan {
            cases: 6_000_000,
            time_cap_s: 480,
            case_timeout_s: 10,
            exhaustive: false,
        },
    }
}

fn thresholds(_t: Tier) -> Vec<(&'static str, u64)> {
    vec![
        ("cases", 1000),
        ("a:strings", 5000),
        ("a:accepted", 1000),
        ("b:compared", 1000),
        ("c:pairs", 2000),
        ("c:variant_differs_and_styles", 500),
        ("distinct", 2000),
    ]
}

fn styled_tokens(lines: &[Line]) -> usize {
    lines
        .iter()
        .flatten()
        .filter(|p| matches!(p, Piece::Str { tags, .. } if tags.iter().any(|a| matches!(a, Ann::Colour(..) | Ann::BgColour(..)))))
        .count()
}

fn run_case(seed: u64, idx: u64, _tier: Tier, out: &mut CaseOut) {
    let mut rng = Rng::for_case(seed, "C17", idx);
    match idx % 4 {
        0 | 1 => {
            // (a) totality of add_css / add_agent_css
            let s = soup_or_valid(&mut rng);
            for origin in [Origin::User, Origin::Agent] {
                let o = try_add_css(origin, &s);
                out.evals += 1;
                out.inc("a:strings");
                match &o {
                    Outcome::Ok(()) => {
                        out.inc("a:accepted");
                        out.observe(crate::rng::hash_str(&s));
                    }
                    Outcome::Err(e) if e == "CssParseError" => out.inc("a:rejected"),
                    o => {
                        out.violate(
                            format!("add_css:{}", o.fail_sig()),
                            format!("add_css/add_agent_css gave {} instead of Ok / Err(CssParseError)", o.kind()),
                            json!({"css": s, "origin": format!("{:?}", origin)}),
                        );
                        return;
                    }
                }
            }
            if out.sample.is_none() {
                out.sample = Some(json!({"kind": "a", "css": truncate(&s, 200)}));
            }
        }
        2 => {
            // (b) CSS in the document never changes whether / what text is rendered
            let mut p = Profile::full();
            p.class_permille = 300;
            p.id_permille = 100;
            p.max_blocks = 4;
            let doc = gen_doc(&mut rng, &p);
            let body = ser_canonical(&doc);
            let s = soup_or_valid(&mut rng);
            if s.contains("</") || s.contains('"') {
                out.inc("b:skipped_unembeddable");
                return;
            }
            let as_attr = rng.chance(1, 3);
            // a second, well-formed <style> after the one under test: s must not
            // reach into it (each style element is a sheet of its own)
            let second = if !as_attr && rng.chance(1, 3) {
                format!("<style>.c{} {{ display: none }} em {{ display: none; }}</style>", rng.below(4))
            } else {
                String::new()
            };
            let only_s: Vec<u8> = format!("<style>{}</style>", s).into_bytes();
            let with_s: Vec<u8> = if as_attr {
                let mut v = format!("<div style=\"{}\">", s).into_bytes();
                v.extend_from_slice(&body);
                v.extend_from_slice(b"</div>");
                v
            } else {
                let mut v = format!("<style>{}</style>{}", s, second).into_bytes();
                v.extend_from_slice(&body);
                v
            };
            if !second.is_empty() {
                out.inc("b:with_second_style_element");
            }
            let without: Vec<u8> = if as_attr {
                let mut v = b"<div>".to_vec();
                v.extend_from_slice(&body);
                v.extend_from_slice(b"</div>");
                v
            } else {
                let mut v = second.clone().into_bytes();
                v.extend_from_slice(&body);
                v
            };
            // does s legitimately affect text?
            let affects = if as_attr {
                ["display", "content", "white-space", "height", "overflow"]
                    .iter()
                    .any(|k| s.to_ascii_lowercase().contains(k))
            } else {
                match parsed_style(&only_s) {
                    Outcome::Ok(ps) => ps.contains("display") || ps.contains("content") || ps.contains("white-space"),
                    o => {
                        if !o.is_total() {
                            out.violate(
                                format!("doc-css:{}", o.fail_sig()),
                                format!("dom_to_parsed_style gave {}", o.kind()),
                                json!({"css": s}),
                            );
                        }
                        return;
                    }
                }
            };
            if affects {
                out.inc("b:skipped_affects_text");
                return;
            }
            let mut cfg = if rng.chance(1, 2) { Cfg::plain() } else { Cfg::rich() };
            cfg.use_doc_css = true;
            let w = pick_width(&mut rng, 100);
            let a = render_string(&cfg, &with_s, w);
            let b = render_string(&cfg, &without, w);
            out.evals += 2;
            out.inc("b:compared");
            if !a.is_total() {
                out.violate(
                    format!("doc-css:{}", a.fail_sig()),
                    format!("rendering a document with CSS gave {}", a.kind()),
                    json!({"css": s, "input": String::from_utf8_lossy(&with_s), "width": w}),
                );
                return;
            }
            if b.is_total() {
                let same = match (&a, &b) {
                    (Outcome::Ok(x), Outcome::Ok(y)) => t_proj(x) == t_proj(y),
                    (x, y) => x.kind() == y.kind(),
                };
                if !same {
                    out.violate(
                        "doc-css:changes-text",
                        "CSS in the document (no display/content/white-space declaration) changed whether or what text is rendered".to_string(),
                        json!({"css": s, "as_attribute": as_attr, "input": String::from_utf8_lossy(&with_s), "width": w,
                               "with": a.ok().cloned().unwrap_or_else(|| a.kind()), "without": b.ok().cloned().unwrap_or_else(|| b.kind())}),
                    );
                    return;
                }
                out.observe(crate::rng::hash_str(&s) ^ crate::rng::hash_bytes(&body));
            }
        }
        _ => {
            // (c) syntactic variants style identically
            let mut p = Profile::full();
            p.class_permille = 600;
            p.id_permille = 250;
            p.max_blocks = 5;
            let doc = gen_doc(&mut rng, &p);
            let body = ser_canonical(&doc);
            let vocab = Vocab::default_doc();
            let mut sheet = gen_colour_sheet(&mut rng, &vocab, 6);
            if rng.chance(1, 3) {
                sheet.0.push(Rule {
                    selectors: vec![gen_selector(&mut rng, &vocab, 2)],
                    decls: vec![Decl { kind: DeclKind::DisplayNone, important: false }],
                });
            }
            // rules that change the text itself: generated content, white-space, the
            // height/overflow idiom in all its spellings
            if rng.chance(1, 3) {
                out.inc("c:sheets_with_text_rules");
                let extra = gen_text_rules(&mut rng, &vocab, 3);
                for r in extra {
                    let at = rng.below(sheet.0.len() + 1);
                    sheet.0.insert(at, r);
                }
            }
            let canonical = sheet.canonical();
            let mut st = CssStyle::random(&mut rng);
            let variant = sheet.to_css(&mut st);
            let variant = variant;
            if st.junk_rulesets {
                out.inc("c:with_junk_ruleset");
            }
            out.inc("c:pairs");
            let via_style = rng.chance(1, 3);
            let w = pick_width(&mut rng, 100);
            // the variant document may carry a broken <style> of its own in front
            const BROKEN_STYLES: [&str; 8] = [
                "}",
                ".zz { color: red",
                "/* never closed",
                "@media screen {",
                "<!--",
                ".zz[ { color: red }",
                ".zz { color: red; } } ]",
                "@import url(",
            ];
            let broken = if via_style && rng.chance(1, 3) {
                out.inc("c:broken_style_element_in_front");
                format!("<style>{}</style>", rng.pick(&BROKEN_STYLES))
            } else {
                String::new()
            };
            let render = |css: &str, pre: &str| -> Outcome<Vec<Line>> {
                if via_style {
                    let mut v = format!("{}<style>{}</style>", pre, css).into_bytes();
                    v.extend_from_slice(&body);
                    let mut cfg = Cfg::rich();
                    cfg.use_doc_css = true;
                    render_lines(&cfg, &v, w)
                } else {
                    let mut cfg = Cfg::rich();
                    cfg.css.push((Origin::User, css.to_string()));
                    render_lines(&cfg, &body, w)
                }
            };
            let a = render(&canonical, "");
            let b = render(&variant, &broken);
            out.evals += 2;
            if let Outcome::Ok(la) = &a {
                if (variant != canonical || !broken.is_empty()) && styled_tokens(la) > 0 {
                    out.inc("c:variant_differs_and_styles");
                    out.observe(crate::rng::hash_str(&variant));
                }
            }
            if out.sample.is_none() {
                out.sample = Some(json!({"kind": "c", "canonical": canonical, "variant": variant}));
            }
            if a != b {
                // classify the variant features in play
                let mut feats: Vec<&str> = Vec::new();
                if st.minify {
                    feats.push("minified");
                }
                if st.comments {
                    feats.push("comments");
                }
                if st.upper_props {
                    feats.push("upper-props");
                }
                if st.final_semi == 1 {
                    feats.push("no-final-semi");
                }
                if st.final_semi == 2 {
                    feats.push("double-semi");
                }
                if st.unknown_props {
                    feats.push("unknown-props");
                }
                if st.junk_rules {
                    feats.push("at-rules");
                }
                if st.junk_rulesets {
                    feats.push("junk-ruleset");
                }
                if !broken.is_empty() {
                    feats.push("broken-style-element-in-front");
                }
                // narrow down: which single feature reproduces it?
                let sig = feats.join("+");
                out.violate(
                    format!("variant-styles-differently:{}", sig),
                    format!("a syntactic variant of a valid sheet styles the document differently (features: {})", sig),
                    json!({"canonical": canonical, "variant": variant, "input": String::from_utf8_lossy(&body), "width": w, "via_style_element": via_style, "broken_style_in_front": broken,
                           "canonical_result": format!("{:?}", a).chars().take(600).collect::<String>(),
                           "variant_result": format!("{:?}", b).chars().take(600).collect::<String>()}),
                );
            }
        }
    }
}
