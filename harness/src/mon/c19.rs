//! C19 — competing declarations are resolved by the CSS cascade.

use super::cssgen::*;
use super::cssref::*;
use crate::ast::{self, El, Fmt, Node};
use crate::exec::*;
use crate::gen::{Profile, Tokens};
use crate::odom::{self, ODom};
use crate::rng::Rng;
use crate::run::{CaseOut, Monitor, Plan, Tier};
use crate::textutil::*;
use serde_json::json;

pub static MONITOR: Monitor = Monitor {
    id: "C19",
    title: "Competing declarations are resolved by the CSS cascade",
    rule: "Exhaustive part: every ordered pair and every ordered triple of `color` declarations drawn from origin {agent (add_agent_css), user (add_css), author (<style> + use_doc_css), inline (style=)} x {normal, !important} x selector specificity class {element, class, id, element+class, :nth-child, the class repeated 11 times, the id repeated 11 times} x both source orders, applied to one element `<p class=c id=i>`; every declaration has its own colour. Random part: sheets of up to 12 rules of 1-3 colour / background-color / background declarations (a block may repeat a property with different importance) in all origins plus inline styles over nested documents in which every element owns a token. Reference cascade (harness): sort key (importance/origin rank agent < user < author < author! < user! < agent!, inline flag, (ids, classes+pseudo-classes, types), source order), greatest wins. Observation: the Colour / BgColour annotations on each element's own token in rich output, as the sequence contributed by its ancestors-or-self; expected sequence = per element the cascade winner of the declarations whose selector matches it (reference matcher of C20). Distinct/non-trivial = distinct (declaration set, element) cases with at least two competing declarations for the same property on one element.",
    assumptions: &[
        "selector matching itself is C20's subject; the selectors used here are simple enough to be uncontroversial in the exhaustive part",
        "declarations of one origin are given to the renderer in the order listed (one sheet per origin, or two add_css calls in order)",
    ],
    plan,
    run_case,
    thresholds,
    hang_is_violation: false,
    budget: None,
};

const ORIGINS: usize = 4; // agent, user, author, inline
const SPECS: usize = 7;
// a declaration = (origin, important, spec class); inline ignores spec class
fn decl_space() -> Vec<(usize, bool, usize)> {
    let mut v = Vec::new();
    for o in 0..ORIGINS {
        for imp in [false, true] {
            if o == 3 {
                v.push((o, imp, 0));
            } else {
                for s in 0..SPECS {
                    v.push((o, imp, s));
                }
            }
        }
    }
    v
}

fn pairs() -> u64 {
    let n = decl_space().len() as u64;
    n * n
}

fn triples() -> u64 {
    let n = decl_space().len() as u64;
    n * n * n
}

fn plan(tier: Tier) -> Plan {
    match tier {
        Tier::Quick => Plan {
            cases: pairs() + triples() + 300_000,
            time_cap_s: 40,
            case_timeout_s: 20,
            exhaustive: false,
        },
        Tier::Thorough => Plan {
            cases: pairs() + triples() + 2_000_000,
            time_cap_s: 360,
            case_timeout_s: 20,
            exhaustive: false,
        },
    }
}

fn thresholds(_t: Tier) -> Vec<(&'static str, u64)> {
    vec![
        ("cases", 1000),
        ("pairs_enumerated", 1000),
        ("triples_enumerated", 30_000),
        ("random_elements_decided", 20_000),
        ("competitions_decided", 5000),
        ("distinct", 1000),
    ]
}

fn spec_selector(s: usize) -> (&'static str, (u32, u32, u32)) {
    match s {
        0 => ("p", (0, 0, 1)),
        1 => (".c", (0, 1, 0)),
        2 => ("#i", (1, 0, 0)),
        3 => ("p.c", (0, 1, 1)),
        4 => ("p:nth-child(1)", (0, 1, 1)),
        // eleven entries in one column must still lose to one entry in the next column
        5 => (".c.c.c.c.c.c.c.c.c.c.c", (0, 11, 0)),
        _ => ("#i#i#i#i#i#i#i#i#i#i#i", (11, 0, 0)),
    }
}

fn colour_for(k: usize) -> (u8, u8, u8) {
    ((10 + k * 40) as u8, (200 - k * 30) as u8, (k * 17 + 3) as u8)
}

struct Built {
    input: Vec<u8>,
    cfg: Cfg,
    decls: Vec<RefDecl<(u8, u8, u8)>>,
    desc: String,
}

/// Build document + configuration for a list of declarations in the given order.
fn build(decls: &[(usize, bool, usize)]) -> Built {
    let mut agent = String::new();
    let mut user = String::new();
    let mut author = String::new();
    let mut inline = String::new();
    let mut refs = Vec::new();
    let mut desc = Vec::new();
    let mut order = [0usize; 4];
    for (k, &(o, imp, s)) in decls.iter().enumerate() {
        let col = colour_for(k);
        let hex = format!("#{:02x}{:02x}{:02x}", col.0, col.1, col.2);
        let bang = if imp { " !important" } else { "" };
        let (sel, spec) = spec_selector(s);
        match o {
            0 => agent.push_str(&format!("{} {{ color: {}{}; }}\n", sel, hex, bang)),
            1 => user.push_str(&format!("{} {{ color: {}{}; }}\n", sel, hex, bang)),
            2 => author.push_str(&format!("{} {{ color: {}{}; }}\n", sel, hex, bang)),
            _ => inline.push_str(&format!("color: {}{};", hex, bang)),
        }
        refs.push(RefDecl {
            origin: match o {
                0 => RefOrigin::Agent,
                1 => RefOrigin::User,
                _ => RefOrigin::Author,
            },
            important: imp,
            inline: o == 3,
            spec: if o == 3 { (0, 0, 0) } else { spec },
            order: order[o],
            value: col,
        });
        order[o] += 1;
        desc.push(format!(
            "{}{}{}",
            ["agent", "user", "author", "inline"][o],
            if imp { "!" } else { "" },
            if o == 3 { String::new() } else { format!("[{}]", sel) }
        ));
    }
    let mut html = String::new();
    // Author rules may come in several <style> elements: one in front; or the first rule
    // deep inside wrappers at the start and the rest in a <style> after the content; or
    // one <style> per rule.  Document order of the elements is the source order.
    let author_rules: Vec<&str> = author.lines().collect();
    let layout = if author_rules.len() >= 2 { crate::rng::hash_str(&desc.join("|")) % 3 } else { 0 };
    let mut tail = String::new();
    match layout {
        1 => {
            html.push_str(&format!("<div><div><style>{}</style></div></div>", author_rules[0]));
            tail = format!("<style>{}</style>", author_rules[1..].join("\n"));
        }
        2 => {
            for r in &author_rules {
                html.push_str(&format!("<style>{}</style>", r));
            }
        }
        _ => {
            if !author.is_empty() {
                html.push_str(&format!("<style>{}</style>", author));
            }
        }
    }
    html.push_str("<div><p class=\"c\" id=\"i\"");
    if !inline.is_empty() {
        html.push_str(&format!(" style=\"{}\"", inline));
    }
    html.push_str(">Token</p><p>Other</p></div>");
    html.push_str(&tail);
    let mut cfg = Cfg::rich();
    cfg.use_doc_css = true;
    if !agent.is_empty() {
        cfg.css.push((Origin::Agent, agent));
    }
    if !user.is_empty() {
        cfg.css.push((Origin::User, user));
    }
    Built {
        input: html.into_bytes(),
        cfg,
        decls: refs,
        desc: desc.join(" vs "),
    }
}

fn colour_of_token(lines: &[Line], token: &str) -> Option<Vec<Ann>> {
    for l in lines {
        for p in l {
            if let Piece::Str { s, tags } = p {
                if s.contains(token) {
                    return Some(
                        tags.iter()
                            .filter(|a| matches!(a, Ann::Colour(..) | Ann::BgColour(..)))
                            .cloned()
                            .collect(),
                    );
                }
            }
        }
    }
    None
}

fn classify(decls: &[RefDecl<(u8, u8, u8)>], got: Option<(u8, u8, u8)>) -> String {
    // which declaration won instead of the expected one?
    let exp = decls.iter().max_by_key(|d| d.key()).unwrap();
    let won = decls.iter().find(|d| Some(d.value) == got);
    let d = |x: &RefDecl<(u8, u8, u8)>| {
        format!(
            "{}{}{}",
            if x.inline {
                "inline".to_string()
            } else {
                format!("{:?}", x.origin).to_lowercase()
            },
            if x.important { "!" } else { "" },
            if x.inline { "" } else { "" }
        )
    };
    match won {
        Some(w) => {
            if w.origin == exp.origin && w.important == exp.important && w.inline == exp.inline {
                if w.spec != exp.spec {
                    "specificity".to_string()
                } else {
                    "source-order".to_string()
                }
            } else {
                format!("{}-beats-{}", d(w), d(exp))
            }
        }
        None => "no-colour".to_string(),
    }
}

fn check_fixed(out: &mut CaseOut, decls: &[(usize, bool, usize)]) -> bool {
    let b = build(decls);
    let o = render_lines(&b.cfg, &b.input, 80);
    out.evals += 1;
    let lines = match &o {
        Outcome::Ok(l) => l,
        _ => return true,
    };
    let exp = cascade_winner(&b.decls);
    let got = colour_of_token(lines, "Token").and_then(|v| {
        v.iter()
            .rev()
            .find_map(|a| if let Ann::Colour(r, g, bb) = a { Some((*r, *g, *bb)) } else { None })
    });
    out.inc("competitions_decided");
    out.observe(crate::rng::hash_str(&b.desc));
    if out.sample.is_none() {
        out.sample = Some(json!({"declarations": b.desc, "input": String::from_utf8_lossy(&b.input),
            "config": b.cfg.describe(), "expected": format!("{:?}", exp), "got": format!("{:?}", got)}));
    }
    if got != exp {
        out.violate(
            format!("cascade:{}", classify(&b.decls, got)),
            format!(
                "declarations [{}] (colours in that order: {:?}): the token carries {:?} but the cascade winner is {:?}",
                b.desc,
                (0..decls.len()).map(colour_for).collect::<Vec<_>>(),
                got,
                exp
            ),
            json!({"input": String::from_utf8_lossy(&b.input), "config": b.cfg.describe(), "declarations": b.desc}),
        );
        return false;
    }
    // the sibling without declarations must stay uncoloured unless an element rule matches it
    true
}

// ---------------------------------------------------------------------------
// random part

struct RDecl {
    origin: usize, // 0 agent 1 user 2 author
    rule: Rule,
}

fn expected_vec(
    dom: &ODom,
    el: odom::Id,
    sheets: &[Vec<Rule>; 3],
    inline_of: &dyn Fn(odom::Id) -> Vec<(bool, bool, (u8, u8, u8))>,
    competitions: &mut u64,
) -> Vec<Ann> {
    let mut chain = dom.ancestors(el);
    chain.reverse();
    chain.push(el);
    let mut v = Vec::new();
    for a in chain {
        if !dom.is_element(a) {
            continue;
        }
        // row groups are transparent here: the crate merges their rows into the table and
        // drops the group's own style (recorded under C09); rows and cells compete on
        // their own declarations only
        if matches!(dom.html_name(a), Some("thead") | Some("tbody") | Some("tfoot")) {
            continue;
        }
        let mut fg: Vec<RefDecl<(u8, u8, u8)>> = Vec::new();
        let mut bg: Vec<RefDecl<(u8, u8, u8)>> = Vec::new();
        for (oi, rules) in sheets.iter().enumerate() {
            let origin = [RefOrigin::Agent, RefOrigin::User, RefOrigin::Author][oi];
            let mut order = 0;
            for r in rules {
                for s in &r.selectors {
                    if selector_matches(dom, a, s) {
                        for d in &r.decls {
                            let (is_bg, c) = match &d.kind {
                                DeclKind::Color(c, _) => (false, *c),
                                DeclKind::BgColor(c, _) | DeclKind::Background(c, _) => (true, *c),
                                _ => continue,
                            };
                            let rd = RefDecl {
                                origin,
                                important: d.important,
                                inline: false,
                                spec: s.specificity(),
                                order,
                                value: (c.0, c.1, c.2),
                            };
                            order += 1;
                            if is_bg {
                                bg.push(rd)
                            } else {
                                fg.push(rd)
                            }
                        }
                    }
                    order += 1;
                }
            }
        }
        for (k, (is_bg, imp, c)) in inline_of(a).into_iter().enumerate() {
            let rd = RefDecl {
                origin: RefOrigin::Author,
                important: imp,
                inline: true,
                spec: (0, 0, 0),
                order: k,
                value: c,
            };
            if is_bg {
                bg.push(rd)
            } else {
                fg.push(rd)
            }
        }
        if fg.len() >= 2 {
            *competitions += 1;
        }
        if bg.len() >= 2 {
            *competitions += 1;
        }
        if let Some(c) = cascade_winner(&fg) {
            v.push(Ann::Colour(c.0, c.1, c.2));
        }
        if let Some(c) = cascade_winner(&bg) {
            v.push(Ann::BgColour(c.0, c.1, c.2));
        }
    }
    v
}

fn gen_tree(rng: &mut Rng, tok: &mut Tokens, depth: usize) -> Node {
    let p = {
        let mut p = Profile::full();
        p.wide_permille = 0;
        p.comb_permille = 0;
        p.long_permille = 0;
        p
    };
    if depth < 2 && rng.chance(1, 6) {
        // a table with row groups; groups, rows and cells carry classes / ids, every cell
        // owns a token
        let mut attrs = |rng: &mut Rng, mut e: El| -> El {
            if rng.chance(1, 2) {
                e.attrs.push(("class".into(), format!("c{}", rng.below(3))));
            }
            if rng.chance(1, 4) {
                e.attrs.push(("id".into(), format!("i{}", rng.below(3))));
            }
            e
        };
        let mut groups = Vec::new();
        for g in ["thead", "tbody", "tfoot"] {
            if g != "tbody" && rng.chance(1, 2) {
                continue;
            }
            let mut rows = Vec::new();
            for _ in 0..rng.range(1, 2) {
                let mut cells = Vec::new();
                for _ in 0..rng.range(1, 2) {
                    let c = El::with("td", vec![Node::Word(tok.unique(rng, &p))]);
                    cells.push(attrs(rng, c).node());
                }
                rows.push(attrs(rng, El::with("tr", cells)).node());
            }
            groups.push(attrs(rng, El::with(g, rows)).node());
        }
        return attrs(rng, El::with("table", groups)).node();
    }
    if depth < 3 && rng.chance(1, 10) {
        // a list without items (only the line break between its tags) that carries a
        // class / id: whatever colour it has must not reach what follows it
        let mut e = El::with(*rng.pick(&["ol", "ul", "dl"]), vec![Node::Raw("\n".into())]);
        e.attrs.push(("class".into(), format!("c{}", rng.below(3))));
        if rng.chance(1, 3) {
            e.attrs.push(("id".into(), format!("i{}", rng.below(3))));
        }
        let mut wrap = El::with("div", vec![Node::Word(tok.unique(rng, &p)), e.node(), Node::Word(tok.unique(rng, &p))]);
        if rng.chance(1, 3) {
            wrap.attrs.push(("class".into(), format!("c{}", rng.below(3))));
        }
        return wrap.node();
    }
    let block = depth < 3 && rng.chance(2, 3);
    let tag = if block {
        *rng.pick(&["div", "blockquote", "p"])
    } else {
        *rng.pick(&["span", "em", "strong"])
    };
    let mut kids = vec![Node::Word(tok.unique(rng, &p))];
    let n = if depth < 4 { rng.below(3) } else { 0 };
    for _ in 0..n {
        kids.push(Node::Space);
        if tag == "p" || !block {
            // inline children only
            let t = *rng.pick(&["span", "em", "strong"]);
            kids.push(El::with(t, vec![Node::Word(tok.unique(rng, &p))]).node());
        } else {
            kids.push(gen_tree(rng, tok, depth + 1));
        }
    }
    let mut e = El::with(tag, kids);
    if rng.chance(1, 2) {
        e.attrs.push(("class".into(), format!("c{}", rng.below(3))));
    }
    if rng.chance(1, 5) {
        e.attrs.push(("id".into(), format!("i{}", rng.below(3))));
    }
    e.node()
}

fn run_random(rng: &mut Rng, out: &mut CaseOut) {
    let mut tok = Tokens::new();
    let mut doc: Vec<Node> = (0..rng.range(1, 2)).map(|_| gen_tree(rng, &mut tok, 0)).collect();
    let vocab = Vocab {
        tags: ["div", "p", "span", "em", "strong", "blockquote"].iter().map(|s| s.to_string()).collect(),
        classes: (0..3).map(|i| format!("c{}", i)).collect(),
        ids: (0..3).map(|i| format!("i{}", i)).collect(),
    };
    let nrules = rng.range(2, 12);
    let mut sheets: [Vec<Rule>; 3] = [Vec::new(), Vec::new(), Vec::new()];
    for _ in 0..nrules {
        let sel = {
            // simple, uncontroversial selectors
            let c = gen_compound(rng, &vocab, false);
            if rng.chance(1, 4) {
                let c2 = gen_compound(rng, &vocab, false);
                Selector {
                    first: c2,
                    rest: vec![(if rng.chance(1, 2) { Comb::Desc } else { Comb::Child }, c)],
                }
            } else {
                Selector::simple(c)
            }
        };
        let (c, f) = gen_colour(rng);
        let kind = match rng.below(4) {
            0 | 1 => DeclKind::Color(c, f),
            2 => DeclKind::BgColor(c, f),
            _ => DeclKind::Background(c, f),
        };
        let rule = Rule {
            selectors: vec![sel],
            decls: {
                // usually one declaration per block; sometimes several, which may
                // repeat a property with different importance
                let mut v = vec![Decl {
                    kind,
                    important: rng.chance(1, 4),
                }];
                while rng.chance(1, 4) && v.len() < 3 {
                    let (c, f) = gen_colour(rng);
                    v.push(Decl {
                        kind: match rng.below(3) {
                            0 => DeclKind::Color(c, f),
                            1 => DeclKind::BgColor(c, f),
                            _ => DeclKind::Background(c, f),
                        },
                        important: rng.chance(1, 4),
                    });
                }
                v
            },
        };
        sheets[rng.below(3)].push(rule);
    }
    // a rule repeated verbatim at the end of its sheet (A, B, A)
    if rng.chance(1, 5) {
        for sh in sheets.iter_mut() {
            if sh.len() >= 2 && rng.chance(1, 2) {
                let k = rng.below(sh.len() - 1);
                let dup = sh[k].clone();
                sh.push(dup);
            }
        }
    }
    // inline styles on some elements
    let mut inline_styles: Vec<(String, Vec<(bool, bool, (u8, u8, u8))>)> = Vec::new();
    let mut counter = 0;
    ast::for_each_el_mut(&mut doc, &mut |e| {
        if rng.chance(1, 6) {
            let mut ds = Vec::new();
            let mut text = String::new();
            loop {
                let is_bg = rng.chance(1, 3);
                let imp = rng.chance(1, 4);
                let col = (rng.below(256) as u8, rng.below(256) as u8, rng.below(256) as u8);
                text.push_str(&format!(
                    "{}: #{:02x}{:02x}{:02x}{};",
                    if is_bg { "background-color" } else { "color" },
                    col.0,
                    col.1,
                    col.2,
                    if imp { " !important" } else { "" }
                ));
                ds.push((is_bg, imp, col));
                if ds.len() >= 3 || !rng.chance(1, 3) {
                    break;
                }
            }
            let key = format!("u{}", counter);
            counter += 1;
            e.set_attr("style", text.trim_end_matches(';'));
            e.set_attr("data-u", &key);
            inline_styles.push((key, ds));
        }
    });
    let mut st = CssStyle::canonical();
    let mut html = String::new();
    let mut tail = String::new();
    if sheets[2].len() >= 2 && rng.chance(1, 2) {
        // the author rules in two <style> elements at different depths: the first deep
        // inside wrappers at the start, the second after the content
        let k = rng.range(1, sheets[2].len() - 1);
        let first = Sheet(sheets[2][..k].to_vec()).to_css(&mut st);
        let second = Sheet(sheets[2][k..].to_vec()).to_css(&mut st);
        html.push_str(&format!("<div><div><style>{}</style></div></div>", first));
        tail = format!("<style>{}</style>", second);
    } else if !sheets[2].is_empty() {
        let author_css = Sheet(sheets[2].clone()).to_css(&mut st);
        html.push_str(&format!("<style>{}</style>", author_css));
    }
    html.push_str(&String::from_utf8_lossy(&ast::serialize(&doc, &mut Fmt::canonical())));
    html.push_str(&tail);
    let input = html.into_bytes();
    let mut cfg = Cfg::rich();
    cfg.use_doc_css = true;
    if !sheets[0].is_empty() {
        cfg.css.push((Origin::Agent, Sheet(sheets[0].clone()).to_css(&mut st)));
    }
    if !sheets[1].is_empty() {
        cfg.css.push((Origin::User, Sheet(sheets[1].clone()).to_css(&mut st)));
    }
    let dom = odom::parse(&input);
    let o = render_lines(&cfg, &input, 10_000);
    out.evals += 1;
    let lines = match &o {
        Outcome::Ok(l) => l,
        _ => return,
    };
    let inline_of = |id: odom::Id| -> Vec<(bool, bool, (u8, u8, u8))> {
        match dom.attr(id, "data-u") {
            Some(k) => inline_styles
                .iter()
                .find(|(kk, _)| kk == k)
                .map(|(_, v)| v.clone())
                .unwrap_or_default(),
            None => Vec::new(),
        }
    };
    // own tokens
    for (id, n) in dom.nodes.iter().enumerate() {
        if !matches!(n.kind, odom::Kind::Element { html: true, .. }) || !dom.attached(id) {
            continue;
        }
        let mut own = None;
        for &c in dom.children(id) {
            if let odom::Kind::Text(t) = dom.kind(c) {
                if let Some(w) = t.split_whitespace().find(|w| w.chars().next().map(|c| c.is_ascii_uppercase()).unwrap_or(false)) {
                    own = Some(w.to_string());
                    break;
                }
            }
        }
        let Some(tok) = own else { continue };
        if dom.ancestors(id).iter().any(|a| dom.html_name(*a) == Some("head")) {
            continue;
        }
        let Some(got) = colour_of_token(lines, &tok) else {
            continue;
        };
        let mut comps = 0;
        let exp = expected_vec(&dom, id, &sheets, &inline_of, &mut comps);
        out.inc("random_elements_decided");
        out.count("competitions_decided", comps);
        if comps > 0 {
            out.observe(crate::rng::hash_bytes(&input) ^ crate::rng::hash_str(&tok));
        }
        if got != exp {
            out.violate(
                "cascade:random-sheet",
                format!(
                    "token {:?} of <{}> carries colour annotations {:?} but the reference cascade over its ancestors gives {:?}",
                    tok,
                    dom.local_name(id).unwrap_or("?"),
                    got,
                    exp
                ),
                json!({"input": String::from_utf8_lossy(&input), "config": cfg.describe()}),
            );
            return;
        }
    }
}

fn run_case(seed: u64, idx: u64, tier: Tier, out: &mut CaseOut) {
    let space = decl_space();
    let n = space.len() as u64;
    let np = pairs();
    let _ = tier;
    let ntriples = triples();
    if idx < np {
        out.inc("pairs_enumerated");
        let a = space[(idx / n) as usize];
        let b = space[(idx % n) as usize];
        check_fixed(out, &[a, b]);
    } else if idx < np + ntriples {
        out.inc("triples_enumerated");
        let _ = seed;
        let k = idx - np;
        let a = space[(k / (n * n)) as usize];
        let b = space[((k / n) % n) as usize];
        let c = space[(k % n) as usize];
        check_fixed(out, &[a, b, c]);
    } else {
        let mut rng = Rng::for_case(seed, "C19", idx);
        run_random(&mut rng, out);
    }
}

#[allow(dead_code)]
fn unused() -> usize {
    sw("")
}
