//! C07 — lists, quotes, headings prefix every line; ordered items count from start.
//! (The compositional oracle is shared with C16.)

use super::common::*;
use crate::ast::{self, El, Fmt, Node};
use crate::exec::*;
use crate::gen::{DocGen, Profile};
use crate::rng::Rng;
use crate::run::{CaseOut, Monitor, Plan, Tier};
use crate::textutil::*;
use serde_json::json;

pub static MONITOR: Monitor = Monitor {
    id: "C07",
    title: "Lists, quotes, headings prefix every line; ordered items count from start",
    rule: "Compositional oracle through the public API: a block B (ul, ol with start in {absent,-100..100,9,98,999} and 1..15 items, blockquote, h1..h6, dl/dd) whose items have generated content K (paragraphs, inline markup, <br>, <pre>, nested lists/quotes/headings/dl to depth 3) is rendered at width w in 4..=100, and every K separately at w - pw (pw = display width of the expected prefix; for ol the widest marker of that list). Expected lines of B = for each item, the lines of render(K, w-pw) with the marker on the first line (ol: decimal start+i followed by '. ', left-aligned and padded to the common width; ul: bullet) and blank indentation of the same width on the others; quote/heading marks on every line. Compared when both renderings are Ok; B Ok with K not Ok is a violation. Decorators plain_no_decorate / plain(footnotes off) / rich / ASCII custom / trivial. Because K is rendered at top level by the same code, induction over nesting depth covers stacked prefixes. Distinct/non-trivial = distinct (block kind, item count, start, width, content) cases with at least one continuation line or more than one item.",
    assumptions: &[
        "items always have content (an empty item produces no line; the property does not say what it should look like)",
        "link footnotes are off (numbering is global, so it is not compositional by design)",
    ],
    plan,
    run_case,
    thresholds,
    hang_is_violation: false,
    budget: None,
};

fn plan(tier: Tier) -> Plan {
    match tier {
        Tier::Quick => Plan {
            cases: 300_000,
            time_cap_s: 40,
            case_timeout_s: 20,
            exhaustive: false,
        },
        Tier::Thorough => Plan {
            cases: 4_000_000,
            time_cap_s: 420,
            case_timeout_s: 20,
            exhaustive: false,
        },
    }
}

fn thresholds(_t: Tier) -> Vec<(&'static str, u64)> {
    vec![
        ("cases", 1000),
        ("blocks_compared", 3000),
        ("kind:ul", 200),
        ("kind:ol", 200),
        ("kind:blockquote", 200),
        ("kind:h", 200),
        ("kind:dd", 100),
        ("ol_digit_crossings", 50),
        ("ol_negative_starts", 50),
        ("continuation_lines", 1000),
        ("nested_blocks", 300),
        ("distinct", 1000),
    ]
}

#[derive(Clone, Debug, PartialEq, Eq)]
pub enum Kind {
    Ul,
    Ol(Option<i64>),
    Quote,
    H(usize),
    Dd,
}

impl Kind {
    pub fn name(&self) -> &'static str {
        match self {
            Kind::Ul => "ul",
            Kind::Ol(_) => "ol",
            Kind::Quote => "blockquote",
            Kind::H(_) => "h",
            Kind::Dd => "dd",
        }
    }
}

/// Prefix strings a decorator is expected to produce.
pub struct Prefixes {
    pub quote: String,
    pub bullet: String,
    pub ol_suffix: String,
    pub header: Box<dyn Fn(usize) -> String>,
}

pub fn prefixes_for(deco: &Deco) -> Prefixes {
    match deco {
        Deco::Trivial => Prefixes {
            quote: "".into(),
            bullet: "".into(),
            ol_suffix: "\u{0}".into(), // marker: trivial has an empty ordered prefix
            header: Box::new(|_| String::new()),
        },
        Deco::Custom(s) => {
            let s2 = s.clone();
            Prefixes {
                quote: s.quote.clone(),
                bullet: s.bullet.clone(),
                ol_suffix: s.ol_suffix.clone(),
                header: Box::new(move |l| s2.header_prefix(l)),
            }
        }
        _ => Prefixes {
            quote: "> ".into(),
            bullet: "* ".into(),
            ol_suffix: ". ".into(),
            header: Box::new(|l| "#".repeat(l) + " "),
        },
    }
}

fn ol_marker(p: &Prefixes, i: i64) -> String {
    if p.ol_suffix == "\u{0}" {
        String::new()
    } else {
        format!("{}{}", i, p.ol_suffix)
    }
}

/// (first-line prefix, continuation prefix) for every item, and the common width.
pub fn expected_prefixes(kind: &Kind, nitems: usize, p: &Prefixes) -> (Vec<(String, String)>, usize) {
    match kind {
        Kind::Ul => {
            let w = sw(&p.bullet);
            (
                (0..nitems)
                    .map(|_| (p.bullet.clone(), " ".repeat(w)))
                    .collect(),
                w,
            )
        }
        Kind::Ol(start) => {
            let s = start.unwrap_or(1);
            let markers: Vec<String> = (0..nitems).map(|i| ol_marker(p, s + i as i64)).collect();
            let w = markers.iter().map(|m| sw(m)).max().unwrap_or(0);
            (
                markers
                    .into_iter()
                    .map(|m| {
                        let pad = w - sw(&m);
                        (m + &" ".repeat(pad), " ".repeat(w))
                    })
                    .collect(),
                w,
            )
        }
        Kind::Quote => {
            let w = sw(&p.quote);
            (vec![(p.quote.clone(), p.quote.clone()); nitems], w)
        }
        Kind::H(l) => {
            let h = (p.header)(*l);
            let w = sw(&h);
            (vec![(h.clone(), h); nitems], w)
        }
        Kind::Dd => (vec![("  ".to_string(), "  ".to_string()); nitems], 2),
    }
}

pub fn build_block(kind: &Kind, items: &[Vec<Node>], dt: &[Node]) -> Vec<Node> {
    match kind {
        Kind::Ul => vec![El::with(
            "ul",
            items
                .iter()
                .map(|k| El::with("li", k.clone()).node())
                .collect(),
        )
        .node()],
        Kind::Ol(start) => {
            let mut e = El::with(
                "ol",
                items
                    .iter()
                    .map(|k| El::with("li", k.clone()).node())
                    .collect(),
            );
            if let Some(s) = start {
                e.attrs.push(("start".into(), s.to_string()));
            }
            vec![e.node()]
        }
        Kind::Quote => vec![El::with("blockquote", items[0].clone()).node()],
        Kind::H(l) => vec![El::with(&format!("h{}", l), items[0].clone()).node()],
        Kind::Dd => vec![El::with(
            "dl",
            vec![
                El::with("dt", dt.to_vec()).node(),
                El::with("dd", items[0].clone()).node(),
            ],
        )
        .node()],
    }
}

pub struct BlockResult {
    pub compared: bool,
    pub ok: bool,
}

/// The compositional check.  `sigpfx` distinguishes C07 from C16 reports.
#[allow(clippy::too_many_arguments)]
pub fn check_block(
    out: &mut CaseOut,
    kind: &Kind,
    items: &[Vec<Node>],
    dt: &[Node],
    cfg: &Cfg,
    w: usize,
    sigpfx: &str,
) -> BlockResult {
    let p = prefixes_for(&cfg.deco);
    let (pfx, pw) = expected_prefixes(kind, items.len(), &p);
    let doc = build_block(kind, items, dt);
    let input = ast::serialize(&doc, &mut Fmt::canonical());
    let b = render_string(cfg, &input, w);
    out.evals += 1;
    let b_lines: Vec<String> = match &b {
        Outcome::Ok(s) => s.lines().map(|l| l.to_string()).collect(),
        Outcome::TooNarrow => {
            out.inc("block_too_narrow");
            return BlockResult { compared: false, ok: true };
        }
        o => {
            if sigpfx == "C16" {
                out.violate(
                    format!("C16:{}", o.fail_sig()),
                    format!("rendering with the custom decorator gave {}", o.kind()),
                    witness(&input, w, cfg, json!({"kind": kind.name()})),
                );
                return BlockResult { compared: false, ok: false };
            }
            return BlockResult { compared: false, ok: true };
        }
    };
    if w <= pw {
        return BlockResult { compared: false, ok: true };
    }
    // expected
    let mut expected: Vec<String> = Vec::new();
    if let Kind::Dd = kind {
        // the term line: under a custom decorator a term is its content between the
        // decorator's emphasis strings, i.e. what <p><em>..</em></p> gives (the built-in
        // decorators draw emphasis differently, there the term is rendered on its own)
        let dtdoc = if matches!(cfg.deco, Deco::Custom(_)) {
            vec![El::with("p", vec![El::with("em", dt.to_vec()).node()]).node()]
        } else {
            vec![El::with("dl", vec![El::with("dt", dt.to_vec()).node()]).node()]
        };
        let dti = ast::serialize(&dtdoc, &mut Fmt::canonical());
        match render_string(cfg, &dti, w) {
            Outcome::Ok(s) => expected.extend(s.lines().map(|l| l.to_string())),
            _ => return BlockResult { compared: false, ok: true },
        }
        out.evals += 1;
    }
    let mut continuation = 0;
    for (i, k) in items.iter().enumerate() {
        let ki = ast::serialize(k, &mut Fmt::canonical());
        let kr = render_string(cfg, &ki, w - pw);
        out.evals += 1;
        match kr {
            Outcome::Ok(s) => {
                for (j, l) in s.lines().enumerate() {
                    let pre = if j == 0 { &pfx[i].0 } else { &pfx[i].1 };
                    if j > 0 {
                        continuation += 1;
                    }
                    expected.push(format!("{}{}", pre, l));
                }
            }
            Outcome::TooNarrow => {
                out.violate(
                    format!("{}:block-ok-but-content-too-narrow:{}", sigpfx, kind.name()),
                    format!(
                        "{} renders at width {} but its content alone is TooNarrow at width {} - prefix {} = {}",
                        kind.name(), w, w, pw, w - pw
                    ),
                    witness(&input, w, cfg, json!({"content": String::from_utf8_lossy(&ki), "prefix_width": pw})),
                );
                return BlockResult { compared: true, ok: false };
            }
            _ => return BlockResult { compared: false, ok: true },
        }
    }
    out.inc("blocks_compared");
    out.count("continuation_lines", continuation);
    if out.sample.is_none() {
        out.sample = Some(sample(&input, w, cfg, &b_lines.join("\n")));
    }
    if expected != b_lines {
        // find first differing line
        let n = expected.len().min(b_lines.len());
        let mut at = n;
        for i in 0..n {
            if expected[i] != b_lines[i] {
                at = i;
                break;
            }
        }
        let e = expected.get(at).cloned().unwrap_or_else(|| "<no line>".into());
        let g = b_lines.get(at).cloned().unwrap_or_else(|| "<no line>".into());
        // classify
        let class = if expected.len() != b_lines.len() {
            "line-count"
        } else if t_proj(&e) == t_proj(&g) && nonspace(&e) != nonspace(&g) {
            "marker"
        } else if nonspace(&e) == nonspace(&g) {
            "indentation"
        } else {
            "content-wrapping"
        };
        out.violate(
            format!("{}:prefix-composition:{}:{}", sigpfx, kind.name(), class),
            format!(
                "{} at width {}: line {} should be {:?} (prefix + content rendered at width {}) but is {:?}",
                kind.name(), w, at, e, w - pw, g
            ),
            witness(&input, w, cfg, json!({"expected": expected, "got": b_lines, "prefix_width": pw})),
        );
        return BlockResult { compared: true, ok: false };
    }
    // The same block through the three-step API with the tree built by a configuration
    // that has another decorator: prefixes and widths are those of the rendering one.
    if w % 3 == 0 {
        let build = cross_build_cfg(cfg, w as u64 + items.len() as u64);
        let cr = render_cross(&build, cfg, &input, &[w]);
        out.evals += 1;
        out.inc("cross_decorator_renderings");
        let got = match &cr {
            Outcome::Ok(v) => v[0].clone(),
            o => o.clone().map(|_| String::new()),
        };
        if got != b {
            out.violate(
                format!("{}:tree-built-under-another-decorator:{}", sigpfx, kind.name()),
                format!(
                    "{} built under the {} decorator and rendered under this configuration gives {} instead of the one-shot result",
                    kind.name(),
                    build.deco.name(),
                    match &got { Outcome::Ok(t) => format!("{:?}", truncate(t, 80)), o => o.kind() }
                ),
                witness(&input, w, cfg, json!({"one_shot": b_lines, "build_config": build.describe()})),
            );
            return BlockResult { compared: true, ok: false };
        }
    }
    // A list written with line breaks between its tags inside a white-space-preserving
    // context (<pre>): the white space between the items is not an item, so the same
    // markers must appear, one per <li>.  (Only the markers are compared: how the
    // items' text wraps inside <pre> is not this property's subject.)
    if matches!(kind, Kind::Ul | Kind::Ol(_)) && pfx.iter().all(|(a, _)| !a.trim().is_empty()) {
        let mut src: Vec<u8> = b"<pre>".to_vec();
        let list = &doc[0];
        if let Node::El(e) = list {
            let mut open = format!("<{}", e.tag);
            for (k, v) in &e.attrs {
                open.push_str(&format!(" {}=\"{}\"", k, v));
            }
            open.push_str(">\n");
            src.extend_from_slice(open.as_bytes());
            for ch in &e.children {
                src.extend_from_slice(b"  ");
                src.extend_from_slice(&ast::serialize(std::slice::from_ref(ch), &mut Fmt::canonical()));
                src.push(b'\n');
            }
            src.extend_from_slice(format!("</{}></pre>", e.tag).as_bytes());
            let markers = |lines: &[String]| -> Vec<usize> {
                lines
                    .iter()
                    .filter_map(|l| pfx.iter().position(|(a, _)| l.starts_with(a.as_str())))
                    .collect()
            };
            if let Outcome::Ok(sp) = render_string(cfg, &src, w) {
                out.evals += 1;
                out.inc("lists_in_pre_context");
                let lp: Vec<String> = sp.lines().map(|l| l.to_string()).collect();
                let (m1, m2) = (markers(&b_lines), markers(&lp));
                if m1 != m2 {
                    out.violate(
                        format!("{}:markers-in-pre-context:{}", sigpfx, kind.name()),
                        format!(
                            "{} with {} items written with line breaks between its tags inside <pre>: {} marker lines instead of {}",
                            kind.name(), items.len(), m2.len(), m1.len()
                        ),
                        witness(&src, w, cfg, json!({"got": lp, "without_pre": b_lines})),
                    );
                    return BlockResult { compared: true, ok: false };
                }
            }
        }
    }
    BlockResult { compared: true, ok: true }
}

/// Content generator for one item.
pub fn gen_item(rng: &mut Rng, depth: usize, inline_only: bool) -> Vec<Node> {
    let mut p = Profile::full().no_tables();
    p.links = true;
    p.max_depth = depth;
    p.max_words = 8;
    p.long_permille = 30;
    p.sup = false;
    let mut g = DocGen::new(rng, p);
    if inline_only {
        g.inline_run(8, 0)
    } else {
        match g.rng.below(5) {
            0 | 1 => g.inline_run(8, 0),
            2 => {
                let mut c = g.inline_run(4, 0);
                c.push(g.block(1));
                c
            }
            _ => g.flow(1, 3),
        }
    }
}

pub fn gen_kind(rng: &mut Rng) -> (Kind, usize) {
    match rng.below(10) {
        0 | 1 => (Kind::Ul, rng.range(1, 4)),
        2 | 3 | 4 => {
            let start = match rng.below(6) {
                0 => None,
                1 => Some(rng.range_i64(-100, 100)),
                2 => Some(*rng.pick(&[9i64, 98, 999])),
                3 => Some(rng.range_i64(-12, -1)),
                4 => Some(rng.range_i64(0, 10)),
                _ => Some(rng.range_i64(90, 101)),
            };
            let n = if rng.chance(1, 3) {
                rng.range(5, 15)
            } else {
                rng.range(1, 4)
            };
            (Kind::Ol(start), n)
        }
        5 | 6 => (Kind::Quote, 1),
        7 | 8 => (Kind::H(rng.range(1, 6)), 1),
        _ => (Kind::Dd, 1),
    }
}

fn digits(i: i64) -> usize {
    i.to_string().len()
}

fn run_case(seed: u64, idx: u64, _tier: Tier, out: &mut CaseOut) {
    let mut rng = Rng::for_case(seed, "C07", idx);
    let (kind, n) = gen_kind(&mut rng);
    out.inc(&format!("kind:{}", kind.name()));
    if let Kind::Ol(s) = &kind {
        let s0 = s.unwrap_or(1);
        if digits(s0) != digits(s0 + n as i64 - 1) {
            out.inc("ol_digit_crossings");
        }
        if s0 < 0 {
            out.inc("ol_negative_starts");
        }
    }
    let inline_only = matches!(kind, Kind::H(_));
    let many = n > 4;
    let mut items: Vec<Vec<Node>> = (0..n)
        .map(|_| {
            if many {
                gen_item(&mut rng, 1, true)
            } else {
                gen_item(&mut rng, 3, inline_only)
            }
        })
        .collect();
    // an item may end with forced line breaks (its rendering then ends with an empty line)
    if rng.chance(1, 6) {
        let k = rng.below(items.len());
        items[k].push(El::new("br").node());
        items[k].push(El::new("br").node());
        out.inc("items_ending_in_br_br");
    }
    // a completely empty <li> still takes its number (one number per item)
    if matches!(kind, Kind::Ol(_) | Kind::Ul) && items.len() >= 2 && rng.chance(1, 6) {
        let k = rng.below(items.len() - 1);
        items[k] = Vec::new();
        out.inc("lists_with_empty_item");
    }
    if items.iter().any(|k| {
        ast::has_tag(k, "ul") || ast::has_tag(k, "ol") || ast::has_tag(k, "blockquote") || ast::has_tag(k, "dl")
    }) {
        out.inc("nested_blocks");
    }
    let dt = gen_item(&mut rng, 0, true);
    let mut cfg = match rng.below(6) {
        0 => Cfg::plain_nd(),
        1 => Cfg::plain(),
        2 => Cfg::rich(),
        3 => Cfg::new(Deco::Custom(CustomSpec::ascii())),
        // prefixes of other byte lengths / display widths (2-byte width-1, 3-byte width-2, empty)
        4 => Cfg::new(Deco::Custom(super::c16::gen_spec(&mut rng))),
        _ => Cfg::trivial(),
    };
    if matches!(&cfg.deco, Deco::Custom(s) if !s.bullet.is_ascii() || !s.quote.is_ascii() || !s.ol_suffix.is_ascii()) {
        out.inc("non_ascii_prefix_decorators");
    }
    cfg.footnotes = Some(false);
    for _ in 0..3 {
        let w = match rng.below(3) {
            0 => rng.range(4, 14),
            _ => rng.range(4, 100),
        };
        let r = check_block(out, &kind, &items, &dt, &cfg, w, "C07");
        if r.compared && r.ok && (n > 1 || out.counters.get("continuation_lines").copied().unwrap_or(0) > 0) {
            let mut h = crate::rng::hash_str(kind.name()) ^ (w as u64) << 8 ^ n as u64;
            for k in &items {
                h = crate::rng::mix(h, crate::rng::hash_bytes(&ast::serialize(k, &mut Fmt::canonical())));
            }
            out.observe(h);
        }
        if !r.ok {
            break;
        }
    }
}
