//! C01 — rendering is total: Ok or TooNarrow, never a panic / abort / hang.

use super::common::*;
use crate::exec::*;
use crate::gen::{self, Profile};
use crate::rng::Rng;
use crate::run::{CaseOut, Monitor, Plan, Tier};
use serde_json::json;

pub static MONITOR: Monitor = Monitor {
    id: "C01",
    title: "Rendering is total: any bytes, width and configuration; never panics or hangs",
    rule: "Each case is one document (grammar-generated, the same with emoji / variation-selector / zero-width-joiner / jamo / wide-space sequences sprinkled into the text, byte-mutated, hostile numeric attributes, byte soup, deep nesting, CSS-bearing) rendered through every public route (string_from_read, lines_from_read, coloured, parse_html->dom_to_render_tree->render_to_string/lines on clones, Display of the tree; for a third of the cases also a tree built under one decorator and rendered by a configuration with another) at several widths from {0,1,2,..,200,10^5,usize::MAX} under a random configuration from the property's product. Oracle: outcome must be Ok or Err(TooNarrow); a panic (location recorded), fuel exhaustion at a hooked loop, another Err, worker death or wall-clock timeout confirmed in isolation is a violation. A case is non-trivial/distinct by the hash of (outcome kind, output text) of a call that returned Ok with non-empty text.",
    assumptions: &[
        "html5ever's tokenizer/tree builder terminate (outside the repository)",
        "non-termination outside the hooked loops is only detected by the wall-clock watchdog (10 s per call group, 5x in isolation; nesting cases budgeted separately)",
        "an 8 MiB thread stack stands for the default main-thread stack",
    ],
    plan,
    run_case,
    thresholds,
    hang_is_violation: true,
    budget: Some(budget),
};

const DEPTH_TAGS: [&str; 24] = [
    "template",
    "section",
    "alt:div:template",
    "alt:template:span",
    "div",
    "blockquote",
    "ul",
    "ol",
    "em",
    "span",
    "a",
    "pre",
    "dl",
    "table",
    "sup",
    "strong",
    "code",
    "s",
    "i",
    "del",
    "ins",
    "center",
    "b",
    "h3",
];
const NT: u64 = DEPTH_TAGS.len() as u64;

/// Tags whose nesting html5ever parses in linear time (no scope scans), so that
/// depth 10^5 fits the quick tier.
const FAST_TAGS: [&str; 11] = ["template", "em", "span", "a", "sup", "strong", "code", "i", "ins", "b", "alt:template:span"];

#[derive(Clone, Copy, PartialEq, Eq, Debug)]
enum DepthKind {
    /// <x>^n through string_from_read under a plain and under a rich+overflow configuration
    Nest,
    /// one outer element of another kind around <x>^n
    Mixed,
    /// a paragraph that is too narrow for the width, then <x>^n: the error leaves
    /// the whole deep remainder of the tree to be discarded
    ErrorFirst,
    /// three-step API on <x>^n: the tree is cloned before it is rendered
    StagedClone,
    /// <a href=..> around <x>^n (link content is inspected for emptiness), also with
    /// nothing inside the innermost element
    InLink,
}

#[derive(Clone, Copy, Debug)]
struct DepthCase {
    kind: DepthKind,
    tag: &'static str,
    n: usize,
}

fn depth_table(tier: Tier) -> Vec<DepthCase> {
    let mut t = Vec::new();
    for &n in &[1_000usize, 20_000] {
        for tag in DEPTH_TAGS {
            t.push(DepthCase { kind: DepthKind::Nest, tag, n });
        }
    }
    for tag in FAST_TAGS {
        t.push(DepthCase { kind: DepthKind::Nest, tag, n: 100_000 });
        t.push(DepthCase { kind: DepthKind::ErrorFirst, tag, n: 100_000 });
    }
    t.push(DepthCase { kind: DepthKind::StagedClone, tag: "em", n: 20_000 });
    // (three times the depth named in the property: the harness is an optimised build
    // whose stack frames are a fraction of a debug build's, and a per-level recursion
    // that a debug build hits at 10^4 levels needs about 3*10^5 here; only formatting
    // elements that html5ever and the crate handle in linear time)
    for tag in ["b", "i", "em"] {
        t.push(DepthCase { kind: DepthKind::InLink, tag, n: 300_000 });
    }
    let mixed = match tier {
        Tier::Quick => 20,
        Tier::Thorough => 60,
    };
    for i in 0..mixed {
        t.push(DepthCase { kind: DepthKind::Mixed, tag: DEPTH_TAGS[i % DEPTH_TAGS.len()], n: 5_000 });
    }
    if tier == Tier::Thorough {
        for tag in DEPTH_TAGS {
            if !FAST_TAGS.contains(&tag) {
                t.push(DepthCase { kind: DepthKind::Nest, tag, n: 100_000 });
            }
        }
        for tag in ["blockquote", "ul", "div", "table"] {
            t.push(DepthCase { kind: DepthKind::ErrorFirst, tag, n: 100_000 });
        }
    }
    t
}

fn depth_cases(tier: Tier) -> u64 {
    depth_table(tier).len() as u64
}

fn plan(tier: Tier) -> Plan {
    match tier {
        Tier::Quick => Plan {
            cases: 20_000,
            time_cap_s: 50,
            case_timeout_s: 10,
            exhaustive: false,
        },
        Tier::Thorough => Plan {
            cases: 150_000,
            time_cap_s: 900,
            case_timeout_s: 10,
            exhaustive: false,
        },
    }
}

fn budget(tier: Tier, idx: u64) -> u64 {
    let t = depth_table(tier);
    match t.get(idx as usize) {
        // html5ever's scope scans make block-level nesting quadratic: ~45 s per parse at 10^5,
        // several parses per case
        Some(c) if c.n >= 100_000 && !FAST_TAGS.contains(&c.tag) => 1800,
        Some(c) if c.n >= 100_000 => 120,
        Some(c) if c.n >= 20_000 => 60,
        Some(_) => 60,
        None => 10,
    }
}

fn thresholds(_tier: Tier) -> Vec<(&'static str, u64)> {
    vec![
        ("cases", 500),
        ("distinct", 100),
        ("class:grammar", 100),
        ("class:mutated", 50),
        ("class:hostile_attr", 20),
        ("class:soup", 20),
        ("class:unicode_sequences", 20),
        ("class:depth", 10),
        ("class:depth_error_first", 5),
        ("deep_tree_discarded_after_error", 5),
        ("outcome:Ok", 500),
        ("outcome:TooNarrow", 50),
    ]
}

pub const WIDTHS_SPECIAL: [usize; 6] = [0, 1, 2, 3, 100_000, usize::MAX];

pub fn c01_width(rng: &mut Rng) -> usize {
    match rng.below(10) {
        0 | 1 => *rng.pick(&WIDTHS_SPECIAL),
        2 | 3 => rng.range(1, 8),
        4 | 5 | 6 => rng.range(1, 40),
        _ => rng.range(1, 200),
    }
}

pub fn c01_cfg(rng: &mut Rng) -> Cfg {
    let mut cfg = Cfg::new(any_deco(rng));
    if rng.chance(1, 4) {
        cfg.overflow = true;
    }
    if rng.chance(1, 4) {
        cfg.min_wrap = Some(*rng.pick(&[0usize, 1, 2, 3, 8, 1000]));
    }
    if rng.chance(1, 4) {
        cfg.max_wrap = Some(*rng.pick(&[0usize, 1, 5, 40, 1_000_000]));
    }
    if rng.chance(1, 6) {
        cfg.pad = true; // dropped below for unbounded widths
    }
    if rng.chance(1, 6) {
        cfg.raw = true;
    }
    if rng.chance(1, 6) {
        cfg.no_borders = true;
    }
    if rng.chance(1, 6) {
        cfg.no_link_wrap = true;
    }
    if rng.chance(1, 4) {
        cfg.footnotes = Some(rng.chance(1, 2));
    }
    if rng.chance(1, 6) {
        cfg.strikeout = Some(rng.chance(1, 2));
    }
    if rng.chance(1, 6) {
        cfg.decorate = true;
    }
    cfg
}

fn judge<T>(
    out: &mut CaseOut,
    route: &str,
    o: &Outcome<T>,
    input: &[u8],
    width: usize,
    cfg: &Cfg,
) -> bool {
    out.evals += 1;
    match o {
        Outcome::Ok(_) => out.inc("outcome:Ok"),
        Outcome::TooNarrow => out.inc("outcome:TooNarrow"),
        _ => out.inc("outcome:other"),
    }
    if !o.is_total() {
        out.violate(
            o.fail_sig(),
            format!("{} returned {} instead of Ok/TooNarrow", route, o.kind()),
            witness(input, width, cfg, json!({"route": route, "outcome": o.kind()})),
        );
        return false;
    }
    true
}

/// Drive every public route for one (input, cfg) at the given widths.
pub fn drive(out: &mut CaseOut, input: &[u8], cfg: &Cfg, widths: &[usize]) {
    let mut first = true;
    for &w in widths {
        let mut c = cfg.clone();
        if w > 100_000 {
            c.pad = false; // property: pad_block_width with bounded widths only
        }
        let t = render_string_traced(&c, input, w);
        out.max("fuel_ticks", t.ticks);
        count_events(out, &t.events);
        let ok = judge(out, "string_from_read", &t.out, input, w, &c);
        if let Outcome::Ok(s) = &t.out {
            if !s.trim().is_empty() {
                out.observe(crate::rng::hash_str(s) ^ (w as u64));
            }
            if out.sample.is_none() {
                out.sample = Some(sample(input, w, &c, s));
            }
        }
        if !ok {
            continue;
        }
        if first {
            first = false;
            let l = render_lines(&c, input, w);
            judge(out, "lines_from_read", &l, input, w, &c);
            if c.deco == Deco::Rich {
                let col = render_coloured(&c, input, w);
                judge(out, "coloured", &col, input, w, &c);
            }
        }
    }
    // staged route on all widths, one tree
    let mut c = cfg.clone();
    if widths.iter().any(|&w| w > 100_000) {
        c.pad = false;
    }
    let st = render_staged(&c, input, widths);
    out.evals += 1;
    match &st {
        Outcome::Ok(v) => {
            for (i, (s, l)) in v.iter().enumerate() {
                judge(out, "render_to_string(clone)", s, input, widths[i], &c);
                judge(out, "render_to_lines(clone)", l, input, widths[i], &c);
            }
        }
        o => {
            if !o.is_total() {
                out.violate(
                    o.fail_sig(),
                    format!("staged route (parse_html/dom_to_render_tree/Display) gave {}", o.kind()),
                    witness(input, widths[0], &c, json!({"route": "staged", "outcome": o.kind()})),
                );
            }
        }
    }
}

/// Cross-configuration route: tree built under another decorator, rendered by `cfg`.
fn drive_cross(out: &mut CaseOut, input: &[u8], cfg: &Cfg, widths: &[usize]) {
    let mut c = cfg.clone();
    if widths.iter().any(|&w| w > 100_000) {
        c.pad = false;
    }
    let build = cross_build_cfg(&c, input.len() as u64);
    let r = render_cross(&build, &c, input, widths);
    out.evals += 1;
    out.inc("route:cross_config");
    match &r {
        Outcome::Ok(v) => {
            for (i, s) in v.iter().enumerate() {
                judge(out, "render_to_string(tree built under another decorator)", s, input, widths[i], &c);
            }
        }
        o => {
            if !o.is_total() {
                out.violate(
                    o.fail_sig(),
                    format!("cross-configuration route (tree built under {}) gave {}", build.deco.name(), o.kind()),
                    witness(input, widths[0], &c, json!({"route": "cross", "build_config": build.describe(), "outcome": o.kind()})),
                );
            }
        }
    }
}

fn run_case(seed: u64, idx: u64, tier: Tier, out: &mut CaseOut) {
    let mut rng = Rng::for_case(seed, "C01", idx);
    let nd = depth_cases(tier);
    if idx < nd && std::env::var("VERIF_LEG").is_ok() {
        // sanitizer builds have much larger stack frames: the 8 MiB budget of the
        // nesting cases is only meaningful for the normal build
        out.inc("depth_cases_skipped_in_leg");
        return;
    }
    if idx < nd {
        let dc = depth_table(tier)[idx as usize];
        let (tag, n) = (dc.tag, dc.n);
        out.inc("class:depth");
        out.inc(match dc.kind {
            DepthKind::Nest => "class:depth_nest",
            DepthKind::Mixed => "class:depth_mixed",
            DepthKind::ErrorFirst => "class:depth_error_first",
            DepthKind::StagedClone => "class:depth_staged_clone",
            DepthKind::InLink => "class:depth_in_link",
        });
        out.max("depth", n as u64);
        let plain = Cfg::plain();
        // The configuration that renders every level.  Rich output tags every piece with
        // the vector of all enclosing annotations, so its size is quadratic in the depth
        // for elements that emit a piece per level (<sup> gives "^{"): that representation
        // is the API's, not a defect, and is kept to n = 1000; deeper nests are rendered
        // by the plain decorator (annotation type ()).
        let rich_over = {
            let mut c = if n <= 1_000 || dc.kind == DepthKind::StagedClone { Cfg::rich() } else { Cfg::plain() };
            c.overflow = true;
            c
        };
        let mut observe = |out: &mut CaseOut, o: &Outcome<String>, w: usize, cfg: &Cfg| {
            if let Outcome::Ok(s) = o {
                out.observe(crate::rng::hash_str(s) ^ idx);
                if out.sample.is_none() {
                    out.sample = Some(json!({"class": "depth", "kind": format!("{:?}", dc.kind), "tag": tag, "n": n, "width": w,
                        "config": cfg.describe(), "output_len": s.len()}));
                }
            }
        };
        match dc.kind {
            DepthKind::Nest | DepthKind::Mixed => {
                let input = if dc.kind == DepthKind::Nest {
                    gen::deep_nest(tag, n)
                } else {
                    let outer = DEPTH_TAGS[rng.below(DEPTH_TAGS.len())];
                    let mut v = format!("<{}>", outer.rsplit(':').next().unwrap_or(outer)).into_bytes();
                    v.extend_from_slice(&gen::deep_nest(tag, n));
                    v
                };
                // both configurations for every tag: the plain one runs into TooNarrow for
                // prefix-consuming tags (and then has to discard the rest of the deep tree),
                // the overflowing one renders all levels
                for (cfg, w) in [(&plain, 80usize), (&rich_over, 80), (&plain, 5)] {
                    crate::run::step(&format!("string_from_read:deep-{}", if dc.kind == DepthKind::Nest { "nest" } else { "mixed" }));
                    let o = render_string(cfg, &input, w);
                    judge(out, "string_from_read", &o, &input[..input.len().min(60)], w, cfg);
                    observe(out, &o, w, cfg);
                }
            }
            DepthKind::ErrorFirst => {
                let mut input = "<p>\u{6F22}\u{5B57}</p>".as_bytes().to_vec();
                input.extend_from_slice(&gen::deep_nest(tag, n));
                crate::run::step("string_from_read:too-narrow-before-deep-nest");
                let o = render_string(&plain, &input, 1);
                judge(out, "string_from_read", &o, &input[..input.len().min(60)], 1, &plain);
                if matches!(o, Outcome::TooNarrow) {
                    out.inc("deep_tree_discarded_after_error");
                }
                let o = render_string(&rich_over, &input, 1);
                judge(out, "string_from_read", &o, &input[..input.len().min(60)], 1, &rich_over);
                observe(out, &o, 1, &rich_over);
            }
            DepthKind::InLink => {
                for empty in [false, true] {
                    let mut input = b"<p>x <a href=\"/1\">".to_vec();
                    let nest = gen::deep_nest(tag, n);
                    // deep_nest ends in the word "deep"; an empty innermost element has none
                    input.extend_from_slice(if empty { &nest[..nest.len() - 4] } else { &nest });
                    crate::run::step("string_from_read:deep-nest-inside-link");
                    let o = render_string(&plain, &input, 80);
                    judge(out, "string_from_read", &o, &input[..input.len().min(60)], 80, &plain);
                    observe(out, &o, 80, &plain);
                }
            }
            DepthKind::StagedClone => {
                let input = gen::deep_nest(tag, n);
                crate::run::step("RenderTree::clone:deep-tree");
                let st = render_staged_noshow(&rich_over, &input, &[80]);
                out.evals += 1;
                match &st {
                    Outcome::Ok(v) => {
                        for (s, l) in v.iter() {
                            judge(out, "render_to_string(clone)", s, &input[..60], 80, &rich_over);
                            judge(out, "render_to_lines(clone)", l, &input[..60], 80, &rich_over);
                            observe(out, s, 80, &rich_over);
                        }
                    }
                    o => {
                        if !o.is_total() {
                            out.violate(o.fail_sig(), format!("staged route on <{}>^{} gave {}", tag, n, o.kind()),
                                json!({"tag": tag, "n": n, "outcome": o.kind()}));
                        }
                    }
                }
            }
        }
        crate::run::step("-");
        return;
    }
    let class = (idx - nd) % 20;
    let mut widths: Vec<usize> = (0..4).map(|_| c01_width(&mut rng)).collect();
    if rng.chance(1, 3) {
        widths[0] = 0;
    }
    let mut cfg = c01_cfg(&mut rng);
    let input: Vec<u8>;
    match class {
        7 => {
            // text in which the string-width and per-character-width measures disagree
            out.inc("class:unicode_sequences");
            let mut p = Profile::full();
            p.max_blocks = 4;
            let doc = gen_doc(&mut rng, &p);
            let base = ser_canonical(&doc);
            let pm = *rng.pick(&[30usize, 120, 400]);
            input = gen::sprinkle_unicode(&mut rng, &base, pm);
            for w in widths.iter_mut().skip(1) {
                if rng.chance(2, 3) {
                    *w = rng.range(1, 12);
                }
            }
        }
        0..=6 => {
            out.inc("class:grammar");
            let mut p = Profile::full();
            p.boundary = if rng.chance(1, 3) { Some(widths[1].clamp(1, 60)) } else { None };
            p.id_permille = 60;
            p.a_name = true;
            p.stray_in_table = rng.chance(1, 3);
            p.edge_space = rng.chance(1, 3);
            p.href_controls = rng.chance(1, 3);
            p.nested_pre = rng.chance(1, 3);
            p.stray_in_list = rng.chance(1, 2);
            p.empty_lists = rng.chance(1, 3);
            p.odd_hrefs = rng.chance(1, 3);
            p.uni_space_permille = *rng.pick(&[0usize, 0, 100]);
            let doc = gen_doc(&mut rng, &p);
            input = if rng.chance(1, 2) {
                ser_canonical(&doc)
            } else {
                ser_varied(&doc, &mut rng)
            };
        }
        8..=12 => {
            out.inc("class:mutated");
            let doc = gen_doc(&mut rng, &Profile::full());
            let base = ser_varied(&doc, &mut rng);
            let nops = rng.range(1, 8);
            input = gen::mutate(&mut rng, &base, nops, &gen::HOSTILE_DICT);
        }
        13 | 14 => {
            out.inc("class:hostile_attr");
            input = hostile_attr_doc(&mut rng);
        }
        15 | 16 => {
            out.inc("class:soup");
            let len = rng.range(1, 300);
            input = gen::byte_soup(&mut rng, len);
        }
        _ => {
            out.inc("class:css");
            let mut p = Profile::full();
            p.class_permille = 300;
            p.id_permille = 100;
            let doc = gen_doc(&mut rng, &p);
            let mut bytes = Vec::new();
            let sheet = super::cssgen::soup_or_valid(&mut rng);
            // legacy presentational attributes with hostile values
            if rng.chance(1, 2) {
                const VALS: [&str; 14] = [
                    "red", "#123", "00aabb", "abcd€", "12345é", "0世界", "ＡＢＣＤＥＦ", "", "######",
                    "rgb(1,2", "0123456789abcdef", "é", "00aab€", "\u{301}\u{301}\u{301}\u{301}\u{301}\u{301}",
                ];
                let a = if rng.chance(1, 2) { "color" } else { "bgcolor" };
                bytes.extend_from_slice(
                    format!(
                        "<font {}=\"{}\">x</font><table {}=\"{}\"><tr><td bgcolor=\"{}\">y</td></tr></table>",
                        a,
                        rng.pick(&VALS),
                        a,
                        rng.pick(&VALS),
                        rng.pick(&VALS)
                    )
                    .as_bytes(),
                );
            }
            bytes.extend_from_slice(b"<style>");
            bytes.extend_from_slice(sheet.as_bytes());
            bytes.extend_from_slice(b"</style>");
            bytes.extend_from_slice(&ser_canonical(&doc));
            input = bytes;
            cfg.use_doc_css = true;
            if rng.chance(1, 2) {
                // only sheets that add_css accepts can be part of a configuration
                let s = super::cssgen::soup_or_valid(&mut rng);
                let o = try_add_css(Origin::User, &s);
                out.evals += 1;
                match &o {
                    Outcome::Ok(()) => {
                        cfg.css.push((
                            if rng.chance(1, 2) { Origin::User } else { Origin::Agent },
                            s,
                        ));
                    }
                    Outcome::Err(e) if e == "CssParseError" => {}
                    o => {
                        out.violate(
                            o.fail_sig(),
                            format!("add_css gave {}", o.kind()),
                            json!({"css": s}),
                        );
                    }
                }
            }
        }
    }
    drive(out, &input, &cfg, &widths);
    if out.violations.is_empty() && idx % 3 == 0 {
        drive_cross(out, &input, &cfg, &widths);
    }
}

/// Tables and lists carrying hostile numeric attributes.
pub fn hostile_attr_doc(rng: &mut Rng) -> Vec<u8> {
    let mut s = String::new();
    match rng.below(3) {
        0 => {
            // table with hostile colspans
            let rows = rng.range(1, 3);
            s.push_str("<table>");
            for _ in 0..rows {
                s.push_str("<tr>");
                let cells = rng.range(1, 4);
                for c in 0..cells {
                    if rng.chance(1, 2) {
                        s.push_str(&format!(
                            "<td colspan=\"{}\">",
                            rng.pick(&gen::COLSPAN_VALUES)
                        ));
                    } else {
                        s.push_str("<td>");
                    }
                    if rng.chance(3, 4) {
                        s.push_str(&format!("c{}x", c));
                    }
                }
            }
            s.push_str("</table>");
        }
        1 => {
            let items = rng.range(0, 3);
            s.push_str(&format!(
                "<ol start=\"{}\">",
                rng.pick(&gen::OL_START_VALUES)
            ));
            for i in 0..items {
                s.push_str(&format!("<li>item{}", i));
            }
            s.push_str("</ol>");
        }
        _ => {
            // list inside table inside list, both hostile
            s.push_str(&format!(
                "<ul><li><table><tr><td colspan={}>a<td>b<tr><td><ol start={}><li>x<li>y</ol></table></ul>",
                rng.pick(&gen::COLSPAN_VALUES),
                rng.pick(&gen::OL_START_VALUES)
            ));
        }
    }
    s.into_bytes()
}

/// Small corpus for the interpreter (Miri) leg: tiny documents of every class,
/// every node kind, all routes, two widths each.  Single-threaded, no
/// subprocesses, so that it can run under `cargo miri run`.
pub fn leg_case(seed: u64, idx: u64, out: &mut CaseOut) {
    let mut rng = Rng::for_case(seed, "C01-leg", idx);
    let mut p = Profile::full();
    p.max_blocks = 2;
    p.max_words = 3;
    p.max_depth = 2;
    p.id_permille = 200;
    p.class_permille = 200;
    p.a_name = true;
    let input: Vec<u8> = match idx % 5 {
        0 | 1 => {
            let doc = gen_doc(&mut rng, &p);
            ser_varied(&doc, &mut rng)
        }
        2 => {
            let doc = gen_doc(&mut rng, &p);
            let base = ser_canonical(&doc);
            gen::mutate(&mut rng, &base, 3, &gen::HOSTILE_DICT)
        }
        3 => hostile_attr_doc(&mut rng),
        _ => {
            let doc = gen_doc(&mut rng, &p);
            let mut v = format!("<style>{}</style>", super::cssgen::soup_or_valid(&mut rng)).into_bytes();
            v.extend_from_slice(&ser_canonical(&doc));
            v
        }
    };
    let mut cfg = c01_cfg(&mut rng);
    if idx % 5 == 4 {
        cfg.use_doc_css = true;
        cfg.css.push((Origin::User, ".c1 { color: #123456; } p > em { display: none }".into()));
    }
    let widths = [rng.range(1, 12), rng.range(20, 60)];
    drive(out, &input, &cfg, &widths);
}
