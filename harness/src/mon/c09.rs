//! C09 — rich annotations mirror element nesting exactly.

use super::common::*;
use crate::ast::{self, Node};
use crate::exec::*;
use crate::gen::Profile;
use crate::odom::{self, Kind, ODom};
use crate::rng::Rng;
use crate::run::{CaseOut, Monitor, Plan, Tier};
use crate::textutil::*;
use serde_json::json;

pub static MONITOR: Monitor = Monitor {
    id: "C09",
    title: "Rich annotations mirror element nesting exactly",
    rule: "Documents with unique tokens under random nestings of em/i/strong/s/del/code/a[href]/img/pre/span, with CSS colours (inline style= color/background-color with use_doc_css, and class rules through add_css) on inline and block elements, inside paragraphs, divs, lists, quotes, headings and table cells; widths 1..=100; config::rich() with and without do_decorate, unicode_strikeout, raw mode, pad_block_width (padding at the end of a line may carry only the annotations of the block holding that line's text and of the block's ancestors). Expected tag vector of a character = annotations of its ancestors in the harness's oracle DOM, outermost first (per element: Colour, BgColour of its own declaration, then Emphasis/Strong/Strikeout/Code/Link(href)/Image(src)); Preformat(_) must be present exactly inside <pre> (its position is not constrained). Alignment: table-free documents and raw mode are walked in lock-step with the visible stream (so tokens split by wrapping are covered); with side-by-side tables tokens are located by search on a line where they are intact. Pieces without token characters (prefixes, borders, padding, decoration, spaces) must carry a vector that is a prefix of the vector of a token piece on the same or an adjacent line. Finally concat(pieces) per line must equal string_from_read. Distinct/non-trivial = distinct (tag vector) observations of length >= 2 together with distinct outputs; max nesting and split tokens are counted.",
    assumptions: &[
        "<dl>/<dt> and <sup> are kept out of this generator (they add Emphasis / Default annotations the property's list does not mention)",
        "each element has at most one colour and one background declaration (the cascade is C19's subject)",
    ],
    plan,
    run_case,
    thresholds,
    hang_is_violation: false,
    budget: None,
};

fn plan(tier: Tier) -> Plan {
    match tier {
        Tier::Quick => Plan {
            cases: 180_000,
            time_cap_s: 40,
            case_timeout_s: 20,
            exhaustive: false,
        },
        Tier::Thorough => Plan {
            cases: 3_000_000,
            time_cap_s: 480,
            case_timeout_s: 20,
            exhaustive: false,
        },
    }
}

fn thresholds(_t: Tier) -> Vec<(&'static str, u64)> {
    vec![
        ("cases", 1000),
        ("chars_aligned", 100_000),
        ("tokens_found_in_tables", 2000),
        ("nontoken_pieces_checked", 10_000),
        ("lines_vs_string", 5000),
        ("docs_with_colour", 500),
        ("vectors_len_ge3", 1000),
        ("distinct", 2000),
    ]
}

fn hex(c: (u8, u8, u8)) -> String {
    format!("#{:02x}{:02x}{:02x}", c.0, c.1, c.2)
}

/// Sprinkle colours over the AST; returns the user sheet for class rules.
fn add_colours(rng: &mut Rng, doc: &mut [Node], permille: usize) -> String {
    let mut sheet = String::new();
    let mut n = 0usize;
    ast::for_each_el_mut(doc, &mut |e| {
        // (row groups are not render nodes: a colour on thead/tbody is not applied at all)
        if matches!(e.tag.as_str(), "br" | "tbody" | "thead") {
            return;
        }
        if rng.below(1000) >= permille {
            return;
        }
        let col = (rng.below(256) as u8, rng.below(256) as u8, rng.below(256) as u8);
        let bg = (rng.below(256) as u8, rng.below(256) as u8, rng.below(256) as u8);
        match rng.below(4) {
            0 => e.set_attr("style", &format!("color:{}", hex(col))),
            1 => e.set_attr("style", &format!("background-color: {};", hex(bg))),
            2 => e.set_attr(
                "style",
                &format!("color: {}; background-color: {}", hex(col), hex(bg)),
            ),
            _ => {
                let cls = format!("k{}", n);
                n += 1;
                e.set_attr("class", &cls);
                sheet.push_str(&format!(".{} {{ color: {}; }}\n", cls, hex(col)));
            }
        }
    });
    sheet
}

fn parse_hex(s: &str) -> Option<(u8, u8, u8)> {
    let s = s.trim().trim_end_matches(';').trim();
    let h = s.strip_prefix('#')?;
    if h.len() != 6 {
        return None;
    }
    Some((
        u8::from_str_radix(&h[0..2], 16).ok()?,
        u8::from_str_radix(&h[2..4], 16).ok()?,
        u8::from_str_radix(&h[4..6], 16).ok()?,
    ))
}

/// Own annotations of one element, in the order the renderer pushes them.
fn own_annotations(dom: &ODom, id: odom::Id, sheet: &[(String, (u8, u8, u8))], css_on: bool) -> Vec<Ann> {
    let mut v = Vec::new();
    let Some(name) = dom.html_name(id) else {
        return v;
    };
    if css_on {
        let mut colour = None;
        let mut bg = None;
        if let Some(cls) = dom.attr(id, "class") {
            for c in cls.split_whitespace() {
                if let Some((_, col)) = sheet.iter().find(|(k, _)| k == c) {
                    colour = Some(*col);
                }
            }
        }
        if let Some(st) = dom.attr(id, "style") {
            for decl in st.split(';') {
                if let Some((k, val)) = decl.split_once(':') {
                    match k.trim() {
                        "color" => colour = parse_hex(val).or(colour),
                        "background-color" => bg = parse_hex(val).or(bg),
                        _ => {}
                    }
                }
            }
        }
        if let Some(c) = colour {
            v.push(Ann::Colour(c.0, c.1, c.2));
        }
        if let Some(c) = bg {
            v.push(Ann::BgColour(c.0, c.1, c.2));
        }
    }
    match name {
        "em" | "i" | "ins" => v.push(Ann::Emphasis),
        "strong" => v.push(Ann::Strong),
        "s" | "del" => v.push(Ann::Strikeout),
        "code" => v.push(Ann::Code),
        "a" => {
            if let Some(h) = dom.attr(id, "href") {
                v.push(Ann::Link(h.to_string()));
            }
        }
        "img" => {
            if let Some(s) = dom.attr(id, "src") {
                v.push(Ann::Image(s.to_string()));
            }
        }
        _ => {}
    }
    v
}

/// Expected vector for the text/img node `node` (without Preformat) and whether it is inside <pre>.
fn expected_vector(dom: &ODom, node: odom::Id, sheet: &[(String, (u8, u8, u8))], css_on: bool) -> (Vec<Ann>, bool) {
    let mut chain: Vec<odom::Id> = dom.ancestors(node);
    chain.reverse();
    if matches!(dom.kind(node), Kind::Element { .. }) {
        chain.push(node);
    }
    let mut v = Vec::new();
    let mut in_pre = false;
    for id in chain {
        if dom.html_name(id) == Some("pre") {
            in_pre = true;
        }
        v.extend(own_annotations(dom, id, sheet, css_on));
    }
    (v, in_pre)
}

/// Annotations contributed by the innermost block-level ancestor of `node` and
/// everything above it (what padding, prefixes and borders of that block may carry).
fn block_chain(dom: &ODom, node: odom::Id, sheet: &[(String, (u8, u8, u8))], css_on: bool) -> Vec<Ann> {
    const INLINE: [&str; 14] = ["em", "i", "ins", "strong", "s", "del", "code", "a", "img", "span", "sup", "b", "u", "font"];
    let mut chain: Vec<odom::Id> = dom.ancestors(node);
    chain.reverse();
    // cut after the last block-level element
    let mut last_block = None;
    for (i, id) in chain.iter().enumerate() {
        if let Some(n) = dom.html_name(*id) {
            if !INLINE.contains(&n) {
                last_block = Some(i);
            }
        }
    }
    let mut v = Vec::new();
    if let Some(lb) = last_block {
        for id in &chain[..=lb] {
            v.extend(own_annotations(dom, *id, sheet, css_on));
        }
    }
    v
}

/// All attached nodes in document order.
fn text_nodes_in_order(dom: &ODom) -> Vec<odom::Id> {
    let mut v = Vec::new();
    let mut stack: Vec<odom::Id> = vec![0]; // node 0 is the document
    while let Some(x) = stack.pop() {
        // (elements too: the visible text of an <img> is attributed to the element)
        v.push(x);
        for &c in dom.children(x).iter().rev() {
            stack.push(c);
        }
    }
    v
}

/// The vector without the colours declared on row groups (<thead>/<tbody>/<tfoot>):
/// the crate merges the rows of all groups into the table and drops the groups' own
/// style (recorded finding), so this is what it produces when only that goes wrong.
fn expected_without_row_group_colours(dom: &ODom, node: odom::Id, sheet: &[(String, (u8, u8, u8))], css_on: bool) -> Vec<Ann> {
    let mut chain: Vec<odom::Id> = dom.ancestors(node);
    chain.reverse();
    if matches!(dom.kind(node), Kind::Element { .. }) {
        chain.push(node);
    }
    let mut v = Vec::new();
    for id in chain {
        if matches!(dom.html_name(id), Some("thead") | Some("tbody") | Some("tfoot")) {
            continue;
        }
        v.extend(own_annotations(dom, id, sheet, css_on));
    }
    v
}

/// Visible characters (node, k-th visible T-character of that node) that are
/// the very first character of a source line of a <pre> (directly after a
/// newline / <br> / the start of the block, no leading whitespace): these are
/// always in the first piece of their line, so they can never carry
/// Preformat(true).
fn pre_line_starts(dom: &ODom) -> std::collections::HashSet<(odom::Id, usize)> {
    let mut set = std::collections::HashSet::new();
    for (id, n) in dom.nodes.iter().enumerate() {
        if !matches!(&n.kind, Kind::Element { name, html: true, .. } if name == "pre") || !dom.attached(id) {
            continue;
        }
        // nested pre inside pre: handled by the outer one as well; harmless
        let mut at_start = true;
        let mut stack: Vec<odom::Id> = dom.children(id).iter().rev().cloned().collect();
        while let Some(x) = stack.pop() {
            match dom.kind(x) {
                Kind::Text(t) => {
                    let mut k = 0usize;
                    for c in t.chars() {
                        if c == '\n' {
                            at_start = true;
                            continue;
                        }
                        if odom::is_visible_char(c) && in_t(c) {
                            if at_start {
                                set.insert((x, k));
                            }
                            k += 1;
                            at_start = false;
                        } else if c.is_whitespace() || odom::is_visible_char(c) {
                            at_start = false;
                        }
                    }
                }
                Kind::Element { name, .. } => {
                    if name == "br" {
                        at_start = true;
                    } else if name == "img" {
                        at_start = false;
                    }
                    for &c in dom.children(x).iter().rev() {
                        stack.push(c);
                    }
                }
                _ => {}
            }
        }
    }
    set
}

fn strip_pre(tags: &[Ann]) -> (Vec<Ann>, Option<bool>) {
    let mut pf = None;
    let mut v = Vec::new();
    for t in tags {
        match t {
            Ann::Preformat(b) => pf = Some(*b),
            other => v.push(other.clone()),
        }
    }
    (v, pf)
}

fn is_prefix(a: &[Ann], b: &[Ann]) -> bool {
    a.len() <= b.len() && a.iter().zip(b.iter()).all(|(x, y)| x == y)
}

fn run_case(seed: u64, idx: u64, _tier: Tier, out: &mut CaseOut) {
    let mut rng = Rng::for_case(seed, "C09", idx);
    let mut p = Profile::full();
    p.dl = false;
    p.sup = false;
    p.long_permille = 30;
    p.odd_hrefs = rng.chance(1, 3);
    p.nested_pre = rng.chance(1, 2);
    p.empty_lists = rng.chance(1, 2);
    let with_tables = rng.chance(1, 3);
    if !with_tables {
        p = p.no_tables();
    }
    p.max_depth = 4;
    let mut doc = gen_doc(&mut rng, &p);
    // digits-only superscripts take a fast path (superscript glyphs, no extra
    // annotation): a few of them, followed by ordinary text
    let mut has_digit_sup = false;
    if rng.chance(1, 3) {
        has_digit_sup = true;
        let mut added = 0;
        ast::for_each_el_mut(&mut doc, &mut |e| {
            if added < 3 && matches!(e.tag.as_str(), "p" | "li" | "div" | "td") && rng.chance(1, 4) {
                added += 1;
                e.children.push(ast::El::with("sup", vec![Node::Word(format!("{}", rng.range(1, 99)))]).node());
                e.children.push(Node::Space);
                e.children.push(Node::Word("tail".into()));
            }
        });
        out.count("digit_superscripts", added);
    }
    // zero-width characters right at an annotation boundary: a combining mark as the
    // first character after an inline element (caf<em>e</em>&#x301;) or as the first
    // character inside one (ab<em>&#x301;cd</em>) belongs to its own text node
    if rng.chance(1, 4) {
        let mut glued = 0u64;
        ast::for_each_el_mut(&mut doc, &mut |e| {
            if e.tag == "pre" {
                return;
            }
            let mut i = 0;
            while i + 1 < e.children.len() {
                let is_inline_el = |n: &Node| matches!(n, Node::El(x) if matches!(x.tag.as_str(), "em" | "i" | "strong" | "s" | "del" | "code" | "a" | "span") && !x.children.is_empty());
                if is_inline_el(&e.children[i]) && rng.chance(1, 3) {
                    // drop a following space and start the next word with a mark
                    let mut j = i + 1;
                    if matches!(e.children[j], Node::Space) && j + 1 < e.children.len() {
                        if let Node::Word(_) = e.children[j + 1] {
                            e.children.remove(j);
                        }
                    }
                    j = i + 1;
                    if let Node::Word(w) = &mut e.children[j] {
                        w.insert(0, *rng.pick(&COMB));
                        glued += 1;
                    }
                } else if let (Node::Word(_), true) = (&e.children[i], is_inline_el(&e.children[i + 1])) {
                    if rng.chance(1, 4) {
                        if let Node::El(x) = &mut e.children[i + 1] {
                            if let Some(Node::Word(w)) = x.children.first_mut() {
                                w.insert(0, *rng.pick(&COMB));
                                glued += 1;
                            }
                        }
                    }
                }
                i += 1;
            }
        });
        out.count("zero_width_at_annotation_boundary", glued);
    }
    let coloured = rng.chance(2, 3);
    let sheet_css = if coloured {
        out.inc("docs_with_colour");
        let pm = *rng.pick(&[50usize, 150, 400]);
        add_colours(&mut rng, &mut doc, pm)
    } else {
        String::new()
    };
    // a <pre> whose white-space is overridden by CSS is still a <pre>: its text keeps
    // the Preformat annotation whatever way it is wrapped
    if coloured && rng.chance(1, 3) {
        ast::for_each_el_mut(&mut doc, &mut |e| {
            if e.tag == "pre" && rng.chance(1, 2) {
                let ws = *rng.pick(&["normal", "nowrap", "pre-line", "pre-wrap", "pre"]);
                let old = e.get_attr("style").map(|s| s.to_string());
                let st = match old {
                    Some(o) if !o.is_empty() => format!("{}; white-space: {}", o.trim_end_matches(';'), ws),
                    _ => format!("white-space: {}", ws),
                };
                e.set_attr("style", &st);
            }
        });
        out.inc("docs_with_white_space_on_pre");
    }
    // (span-wrapping the digits of a superscript changes its rendering: known C13
    // finding, so documents with digit superscripts keep their inline structure)
    let input = if rng.chance(1, 2) {
        ser_canonical(&doc)
    } else if has_digit_sup {
        ast::serialize(&doc, &mut ast::Fmt::layout_only(rng.fork()))
    } else {
        ser_varied(&doc, &mut rng)
    };
    let mut cfg = Cfg::rich();
    if coloured {
        cfg.use_doc_css = true;
        if !sheet_css.is_empty() {
            cfg.css.push((Origin::User, sheet_css.clone()));
        }
    }
    if rng.chance(1, 4) {
        cfg.decorate = true;
    }
    if rng.chance(1, 4) {
        cfg.strikeout = Some(false);
    }
    if with_tables && rng.chance(1, 3) {
        cfg.raw = true;
    }
    if rng.chance(1, 4) {
        cfg.pad = true;
        out.inc("cfg:pad_block_width");
    }
    // class -> colour map for the oracle
    let sheet: Vec<(String, (u8, u8, u8))> = sheet_css
        .lines()
        .filter_map(|l| {
            let cls = l.strip_prefix('.')?.split(' ').next()?.to_string();
            let col = l.split("color:").nth(1)?.trim().trim_end_matches('}').trim();
            Some((cls, parse_hex(col)?))
        })
        .collect();
    let dom = odom::parse(&input);
    let vstream: Vec<odom::VChar> = odom::visible_stream(&dom, &|_| false)
        .into_iter()
        .filter(|v| in_t(v.c))
        .collect();
    let has_table = dom.has_element("table");
    let line_starts = pre_line_starts(&dom);
    for _ in 0..2 {
        let w = pick_width(&mut rng, 100);
        let l = render_lines(&cfg, &input, w);
        out.evals += 1;
        let lines = match &l {
            Outcome::Ok(l) => l,
            _ => continue,
        };
        // concat(pieces) == string route
        let s = render_string(&cfg, &input, w);
        out.evals += 1;
        out.inc("lines_vs_string");
        if let Outcome::Ok(s) = &s {
            if &lines_to_string(lines) != s {
                out.violate(
                    "lines-differ-from-string",
                    "concatenating the pieces of each annotated line does not give the string output".to_string(),
                    witness(&input, w, &cfg, json!({"string": truncate(s, 600), "lines": truncate(&lines_to_string(lines), 600)})),
                );
                return;
            }
            out.observe(crate::rng::hash_str(s));
        }
        if out.sample.is_none() {
            out.sample = Some(json!({"input": show_bytes(&input, 400), "width": w, "config": cfg.describe(),
                "first_lines": lines.iter().take(4).map(|l| format!("{:?}", l)).collect::<Vec<_>>()}));
        }
        let sequential = !has_table || cfg.raw;
        let mut cursor = 0usize;
        let mut prev_node = None;
        let mut k_in_node: std::collections::HashMap<odom::Id, usize> = std::collections::HashMap::new();
        let mut split_tokens = 0u64;
        // per line: vectors of token pieces (for the non-token piece rule)
        let mut line_tok_vecs: Vec<Vec<Vec<Ann>>> = vec![Vec::new(); lines.len()];
        // per line: the text nodes whose characters were aligned on it (sequential mode)
        let mut line_nodes: Vec<Vec<odom::Id>> = vec![Vec::new(); lines.len()];
        let mut nontoken: Vec<(usize, Vec<Ann>, String)> = Vec::new();
        for (ln, line) in lines.iter().enumerate() {
            for piece in line {
                let Piece::Str { s, tags } = piece else {
                    continue;
                };
                let (tv, pf) = strip_pre(tags);
                let has_t = s.chars().any(in_t);
                if !has_t {
                    nontoken.push((ln, tv.clone(), s.clone()));
                    continue;
                }
                line_tok_vecs[ln].push(tv.clone());
                if tv.len() >= 3 {
                    out.inc("vectors_len_ge3");
                }
                out.max("nesting", tv.len() as u64);
                out.observe(crate::rng::hash_str(&format!("{:?}", tv)));
                if !sequential {
                    continue;
                }
                for c in s.chars().filter(|c| in_t(*c)) {
                    let Some(v) = vstream.get(cursor) else {
                        out.inc("misaligned(see C03)");
                        return;
                    };
                    if v.c != c {
                        out.inc("misaligned(see C03)");
                        return;
                    }
                    cursor += 1;
                    out.inc("chars_aligned");
                    if Some(v.node) == prev_node {
                        // same node as before: vector must be the same unless the line changed
                    }
                    let (exp, in_pre) = expected_vector(&dom, v.node, &sheet, coloured);
                    if exp != tv {
                        let class = if expected_without_row_group_colours(&dom, v.node, &sheet, coloured) == tv {
                            "row-group-colour-not-applied"
                        } else if is_prefix(&exp, &tv) {
                            "extra-annotation"
                        } else if is_prefix(&tv, &exp) {
                            "missing-annotation"
                        } else {
                            let mut a = exp.clone();
                            let mut b = tv.clone();
                            a.sort_by_key(|x| format!("{:?}", x));
                            b.sort_by_key(|x| format!("{:?}", x));
                            if a == b {
                                "order"
                            } else {
                                "differs"
                            }
                        };
                        out.violate(
                            format!("tag-vector:{}", class),
                            format!(
                                "character {:?} (visible char #{}) on line {} carries {:?} but its enclosing elements give {:?}",
                                c, cursor - 1, ln, tv, exp
                            ),
                            witness(&input, w, &cfg, json!({"line": format!("{:?}", line)})),
                        );
                        return;
                    }
                    let k = {
                        let e = k_in_node.entry(v.node).or_insert(0);
                        let k = *e;
                        *e += 1;
                        k
                    };
                    // (with do_decorate a '*' / '**' / '`' precedes the element's text,
                    // so the text's first character need not be in the first piece)
                    if pf == Some(true) && !cfg.decorate_on() && line_starts.contains(&(v.node, k)) {
                        out.violate(
                            "preformat-continuation-flag-on-line-start",
                            format!("character {:?} is the first character of a <pre> source line but is tagged Preformat(true) (continuation)", c),
                            witness(&input, w, &cfg, json!({"line": format!("{:?}", line)})),
                        );
                        return;
                    }
                    if in_pre {
                        out.inc("pre_chars_checked");
                    }
                    if in_pre != pf.is_some() {
                        out.violate(
                            if in_pre { "preformat-flag-missing" } else { "preformat-flag-outside-pre" },
                            format!("character {:?} on line {}: inside <pre> = {}, Preformat tag = {:?}", c, ln, in_pre, pf),
                            witness(&input, w, &cfg, json!({"line": format!("{:?}", line)})),
                        );
                        return;
                    }
                    if Some(v.node) != prev_node {
                        prev_node = Some(v.node);
                    }
                    if line_nodes[ln].last() != Some(&v.node) {
                        line_nodes[ln].push(v.node);
                    }
                }
            }
            if sequential && cursor < vstream.len() && cursor > 0 {
                // token split across lines?
                if vstream[cursor - 1].node == vstream[cursor].node
                    && !vstream[cursor].c.is_ascii_uppercase()
                {
                    split_tokens += 1;
                }
            }
        }
        out.count("tokens_split_across_lines", split_tokens);
        if sequential && cursor != vstream.len() {
            out.inc("misaligned(see C03)");
            return;
        }
        if !sequential {
            // locate tokens by search
            let flat: Vec<(String, Vec<(usize, usize)>, Vec<Vec<Ann>>)> = lines
                .iter()
                .map(|line| {
                    let mut text = String::new();
                    let mut spans = Vec::new(); // byte range -> piece idx
                    let mut vecs = Vec::new();
                    for piece in line {
                        if let Piece::Str { s, tags } = piece {
                            let start = text.len();
                            text.push_str(s);
                            spans.push((start, text.len()));
                            vecs.push(strip_pre(tags).0);
                        }
                    }
                    (text, spans, vecs)
                })
                .collect();
            let mut i = 0;
            while i < vstream.len() {
                let mut j = i + 1;
                while j < vstream.len()
                    && vstream[j].node == vstream[i].node
                    && !vstream[j].c.is_ascii_uppercase()
                {
                    j += 1;
                }
                let tok: String = vstream[i..j].iter().map(|v| v.c).collect();
                if vstream[i].c.is_ascii_uppercase() && tok.chars().count() >= 4 {
                    // the token as it appears (with combining marks and strike marks) is hard to
                    // search; search for its ASCII prefix of 4 characters, which is unique
                    let key: String = tok.chars().take(4).collect();
                    for (text, spans, vecs) in &flat {
                        if let Some(pos) = text.find(&key) {
                            let pi = spans.iter().position(|(a, b)| pos >= *a && pos < *b).unwrap();
                            let (exp, _) = expected_vector(&dom, vstream[i].node, &sheet, coloured);
                            out.inc("tokens_found_in_tables");
                            if exp != vecs[pi] {
                                out.violate(
                                    if expected_without_row_group_colours(&dom, vstream[i].node, &sheet, coloured) == vecs[pi] {
                                        "tag-vector:row-group-colour-not-applied"
                                    } else {
                                        "tag-vector:in-table"
                                    },
                                    format!("token {:?} carries {:?} but its enclosing elements give {:?}", tok, vecs[pi], exp),
                                    witness(&input, w, &cfg, json!({"line": text})),
                                );
                                return;
                            }
                            break;
                        }
                    }
                }
                i = j;
            }
        }
        // padding (pad_block_width): the spaces that fill a line up to the block width
        // belong to the block, not to the inline elements on the line - they may carry
        // the annotations of the block's ancestors (and the block itself) only
        if cfg.pad && sequential {
            let order = text_nodes_in_order(&dom);
            for (ln, line) in lines.iter().enumerate() {
                let Some(Piece::Str { s, tags }) = line.iter().rev().find(|p| matches!(p, Piece::Str { .. })) else {
                    continue;
                };
                if s.is_empty() || !s.chars().all(|c| c == ' ') || line_nodes[ln].is_empty() {
                    continue;
                }
                let (tv, _) = strip_pre(tags);
                out.inc("padding_pieces_checked");
                let mut ok = line_nodes[ln].iter().any(|&n| is_prefix(&tv, &block_chain(&dom, n, &sheet, coloured)));
                if !ok {
                    // The line may end where the source has collapsible white space inside an
                    // inline element (<i>word </i>): that space is never written, but the
                    // padding starts in its column and takes its annotations.  Accept the
                    // vector of any white-space-bearing text node between the last character
                    // of this line and the first character of the next one.
                    let last = *line_nodes[ln].last().unwrap();
                    let next = line_nodes.iter().skip(ln + 1).find_map(|v| v.first().copied());
                    let a = order.iter().position(|&x| x == last);
                    let b = next.and_then(|n| order.iter().position(|&x| x == n)).unwrap_or(order.len().saturating_sub(1));
                    if let Some(a) = a {
                        for &tn in order.iter().take(b.max(a) + 1).skip(a) {
                            if let Kind::Text(t) = dom.kind(tn) {
                                if t.chars().any(|c| c.is_whitespace()) && expected_vector(&dom, tn, &sheet, coloured).0 == tv {
                                    ok = true;
                                    out.inc("padding_after_pending_space_in_inline");
                                    break;
                                }
                            }
                        }
                    }
                }
                if !ok {
                    out.violate(
                        "padding-carries-inline-annotation",
                        format!(
                            "the padding at the end of line {} carries {:?}; the blocks holding the text of that line give at most {:?}",
                            ln,
                            tv,
                            line_nodes[ln].iter().map(|&n| block_chain(&dom, n, &sheet, coloured)).max_by_key(|v| v.len()).unwrap_or_default()
                        ),
                        witness(&input, w, &cfg, json!({"line": format!("{:?}", line)})),
                    );
                    return;
                }
            }
        }
        // non-token pieces: prefix of a neighbouring token vector
        for (ln, tv, s) in &nontoken {
            let mut cands: Vec<&Vec<Ann>> = Vec::new();
            let lo = ln.saturating_sub(1);
            let hi = (*ln + 1).min(lines.len() - 1);
            for k in lo..=hi {
                cands.extend(line_tok_vecs[k].iter());
            }
            if cands.is_empty() {
                continue;
            }
            out.inc("nontoken_pieces_checked");
            if !cands.iter().any(|c| is_prefix(tv, c)) {
                // further away? look at the whole document before judging
                let mut any = line_tok_vecs.iter().flatten().any(|c| is_prefix(tv, c));
                if !any {
                    // borders / padding of an element without text of its own (e.g. an
                    // empty coloured table row): any element's own chain is acceptable
                    for (id, n) in dom.nodes.iter().enumerate() {
                        if matches!(n.kind, Kind::Element { .. }) && dom.attached(id) {
                            let (ev, _) = expected_vector(&dom, id, &sheet, coloured);
                            if is_prefix(tv, &ev) {
                                any = true;
                                break;
                            }
                        }
                    }
                }
                if !any {
                    // the recorded row-group finding seen on a border: the piece carries the
                    // chain of an element minus the colours of its <thead>/<tbody>/<tfoot>
                    let mut rowgroup = false;
                    for (id, n) in dom.nodes.iter().enumerate() {
                        if matches!(n.kind, Kind::Element { .. }) && dom.attached(id)
                            && is_prefix(tv, &expected_without_row_group_colours(&dom, id, &sheet, coloured))
                        {
                            rowgroup = true;
                            break;
                        }
                    }
                    if rowgroup {
                        out.violate(
                            "tag-vector:row-group-colour-not-applied",
                            format!("piece {:?} on line {} carries {:?}: the chain of an element without the colour of its row group", s, ln, tv),
                            witness(&input, w, &cfg, json!({"line": format!("{:?}", lines[*ln])})),
                        );
                        return;
                    }
                }
                if !any {
                    out.violate(
                        "nontoken-piece-annotation",
                        format!("piece {:?} on line {} (no document text) carries {:?}, which no text of the document carries as a prefix", s, ln, tv),
                        witness(&input, w, &cfg, json!({"line": format!("{:?}", lines[*ln])})),
                    );
                    return;
                }
                out.inc("nontoken_piece_matched_far");
            }
        }
    }
}
