//! Helpers shared by the monitors.

use crate::ast::{self, Fmt, Node};
use crate::exec::{Cfg, CustomSpec, Deco, Event};
use crate::gen::{DocGen, Profile};
use crate::rng::Rng;
use crate::run::CaseOut;
use crate::textutil::{show_bytes, truncate};
use serde_json::{json, Value};

pub fn gen_doc(rng: &mut Rng, p: &Profile) -> Vec<Node> {
    let mut g = DocGen::new(rng, p.clone());
    g.document()
}

pub fn ser_canonical(doc: &[Node]) -> Vec<u8> {
    ast::serialize(doc, &mut Fmt::canonical())
}

pub fn ser_varied(doc: &[Node], rng: &mut Rng) -> Vec<u8> {
    ast::serialize(doc, &mut Fmt::varied(rng.fork()))
}

/// One of the four standard decorators or the ASCII custom one.
pub fn any_deco(rng: &mut Rng) -> Deco {
    match rng.below(5) {
        0 => Deco::Plain,
        1 => Deco::PlainNoDecorate,
        2 => Deco::Rich,
        3 => Deco::Trivial,
        _ => Deco::Custom(CustomSpec::ascii()),
    }
}

pub fn std_deco(rng: &mut Rng) -> Deco {
    match rng.below(3) {
        0 => Deco::Plain,
        1 => Deco::Rich,
        _ => Deco::Trivial,
    }
}

/// Random mix of layout options (no overflow, no no_link_wrapping, no CSS).
pub fn layout_opts(rng: &mut Rng, cfg: &mut Cfg, width: usize) {
    if rng.chance(1, 5) {
        cfg.max_wrap = Some(*rng.pick(&[1usize, 2, 5, 10, 20, 40, 1_000_000]));
    }
    if rng.chance(1, 6) {
        cfg.min_wrap = Some(*rng.pick(&[1usize, 2, 3, 4, 8]));
    }
    if rng.chance(1, 6) && width <= 300 {
        cfg.pad = true;
    }
    if rng.chance(1, 8) {
        cfg.raw = true;
    }
    if rng.chance(1, 8) {
        cfg.no_borders = true;
    }
    if rng.chance(1, 6) {
        cfg.footnotes = Some(rng.chance(1, 2));
    }
    if rng.chance(1, 8) {
        cfg.strikeout = Some(rng.chance(1, 2));
    }
    if rng.chance(1, 8) {
        cfg.decorate = true;
    }
}

pub fn witness(input: &[u8], width: usize, cfg: &Cfg, extra: Value) -> Value {
    json!({
        "input": String::from_utf8_lossy(input),
        "input_len": input.len(),
        "width": if width > (1u64 << 53) as usize { json!(format!("{}", width)) } else { json!(width) },
        "config": cfg.describe(),
        "detail": extra,
    })
}

pub fn sample(input: &[u8], width: usize, cfg: &Cfg, output: &str) -> Value {
    json!({
        "input": show_bytes(input, 400),
        "width": if width > (1u64 << 53) as usize { json!(format!("{}", width)) } else { json!(width) },
        "config": cfg.describe(),
        "output": truncate(output, 600),
    })
}

/// Fold hook events into reach counters.
pub fn count_events(out: &mut CaseOut, events: &[Event]) {
    let mut tl_v = 0;
    let mut tl_h = 0;
    let mut hard = 0;
    let mut prew = 0;
    let mut tight = 0;
    let mut wm = 0;
    let mut wm_over = 0;
    let mut wm_narrow = 0;
    let mut hidden = 0;
    let mut hits = 0;
    let mut miss = 0;
    for e in events {
        match e {
            Event::TableLayout { vertical, .. } => {
                if *vertical {
                    tl_v += 1
                } else {
                    tl_h += 1
                }
            }
            Event::HardWrap => hard += 1,
            Event::PreWrap => prew += 1,
            Event::LineFlushed { limit, width } => {
                if limit == width {
                    tight += 1
                }
            }
            Event::WidthMinus {
                overflowed, result, ..
            } => {
                wm += 1;
                if *overflowed {
                    wm_over += 1
                }
                if result.is_none() {
                    wm_narrow += 1
                }
            }
            Event::Hidden => hidden += 1,
            Event::EstimateHit => hits += 1,
            Event::EstimateMiss => miss += 1,
            _ => {}
        }
    }
    out.count("hook:tables_stacked", tl_v);
    out.count("hook:tables_side_by_side", tl_h);
    out.count("hook:hard_wraps", hard);
    out.count("hook:pre_wraps", prew);
    out.count("hook:tight_lines", tight);
    out.count("hook:width_minus", wm);
    out.count("hook:width_minus_overflowed", wm_over);
    out.count("hook:width_minus_too_narrow", wm_narrow);
    out.count("hook:hidden", hidden);
    out.count("hook:estimate_hits", hits);
    out.count("hook:estimate_misses", miss);
}

/// Which TableLayout events were seen: (any stacked, any side-by-side)
pub fn table_layouts(events: &[Event]) -> (bool, bool) {
    let mut v = false;
    let mut h = false;
    for e in events {
        if let Event::TableLayout { vertical, .. } = e {
            if *vertical {
                v = true
            } else {
                h = true
            }
        }
    }
    (v, h)
}

/// Widths concentrated on small values, full range 1..=max.
pub fn pick_width(rng: &mut Rng, max: usize) -> usize {
    match rng.below(10) {
        0 => rng.range(1, 4.min(max)),
        1 | 2 => rng.range(1, 12.min(max)),
        3 | 4 | 5 => rng.range(1, 40.min(max)),
        _ => rng.range(1, max),
    }
}

/// A configuration that differs from `cfg` only in its decorator, used to
/// build the render tree that `cfg` then renders (cross-configuration route).
/// `config::plain()` is the plain decorator plus `do_decorate()`, which adds
/// agent style rules at tree-building time, so that setting is kept equal.
pub fn cross_build_cfg(cfg: &Cfg, salt: u64) -> Cfg {
    let mut b = cfg.clone();
    let decos = [
        Deco::PlainNoDecorate,
        Deco::Rich,
        Deco::Trivial,
        Deco::Custom(CustomSpec::ascii()),
    ];
    let alt: Vec<&Deco> = decos.iter().filter(|d| **d != cfg.deco).collect();
    b.deco = alt[(salt % alt.len() as u64) as usize].clone();
    b.decorate = cfg.decorate_on();
    b
}
