//! C04 — paragraph wrapping is exactly greedy word filling with whitespace collapsed.

use super::common::*;
use crate::ast::{self, El, Fmt, Node};
use crate::exec::*;
use crate::rng::Rng;
use crate::run::{CaseOut, Monitor, Plan, Tier};
use crate::textutil::*;
use serde_json::json;

pub static MONITOR: Monitor = Monitor {
    id: "C04",
    title: "Paragraph wrapping is exactly greedy word filling with whitespace collapsed",
    rule: "Reference model: a 40-line greedy wrapper (words split on char::is_whitespace; a word joins the line iff (line non-empty ? 1 : 0) + width(word) <= remaining; otherwise a new line; a word wider than a line is cut into maximal prefixes by display width without splitting a character, zero-width characters staying with the preceding one, the last piece left open; TooNarrow iff a width-2 character meets a width-1 line). Workload: (i) bounded-exhaustive enumeration of all word-width tuples (quick: up to 4 words of width 1..=6; thorough: up to 5 words of width 1..=7) x every width 1..=40, each width realised by rotating character patterns (all narrow / leading wide / trailing wide / with combining mark); (ii) random paragraphs up to 60 words. Every paragraph is rendered as plain text in one text node and also split at random points across text nodes, comments and inline elements (em/strong/code/span/a/i) with the rich decorator, under max_wrap_width(m) (effective width min(m,w)) and inside one prefixed block (blockquote/ul/ol/h2: effective width w - prefix). Oracle: lines(render) == reference lines; Ok required when the reference succeeds (for prefixed blocks when w - prefix >= 3 or the content fits). Distinct/non-trivial = distinct (word-width tuple, width, variant) combinations whose reference layout needs more than one line or a hard wrap.",
    assumptions: &[
        "standalone zero-width 'words' are not generated (combining marks always follow a base letter)",
    ],
    plan,
    run_case,
    thresholds,
    hang_is_violation: false,
    budget: None,
};

const QUICK_MAXW: u64 = 6;
const QUICK_WORDS: u32 = 4;
const THOR_MAXW: u64 = 7;
const THOR_WORDS: u32 = 5;

fn tuples(maxw: u64, words: u32) -> u64 {
    (1..=words).map(|k| maxw.pow(k)).sum()
}

fn plan(tier: Tier) -> Plan {
    match tier {
        Tier::Quick => Plan {
            // exhaustive tuples, then random cases
            cases: tuples(QUICK_MAXW, QUICK_WORDS) + 200_000,
            time_cap_s: 45,
            case_timeout_s: 20,
            exhaustive: false,
        },
        Tier::Thorough => Plan {
            cases: tuples(THOR_MAXW, THOR_WORDS) + 2_000_000,
            time_cap_s: 600,
            case_timeout_s: 20,
            exhaustive: false,
        },
    }
}

fn thresholds(_t: Tier) -> Vec<(&'static str, u64)> {
    vec![
        ("cases", 1000),
        ("tuples_enumerated", 1000),
        ("layouts_compared", 50_000),
        ("ref_hard_wraps", 1000),
        ("ref_too_narrow", 100),
        ("split_across_elements", 1000),
        ("distinct", 5_000),
    ]
}

#[derive(Debug, Clone, PartialEq, Eq)]
pub enum Wrapped {
    Lines(Vec<String>),
    TooNarrow,
}

/// The reference greedy wrapper.  Returns the lines and the number of hard-wrap cuts.
pub fn greedy_wrap(words: &[String], width: usize) -> (Wrapped, usize) {
    let mut lines: Vec<String> = Vec::new();
    let mut cur = String::new();
    let mut curw = 0usize;
    let mut cuts = 0usize;
    for word in words {
        let ww = sw_chars(word);
        let need = ww + if curw > 0 { 1 } else { 0 };
        if curw <= width && need <= width - curw {
            if curw > 0 {
                cur.push(' ');
            }
            cur.push_str(word);
            curw += need;
            continue;
        }
        if !cur.is_empty() {
            lines.push(std::mem::take(&mut cur));
            curw = 0;
        }
        // the word starts a line; cut it if it is wider than the line
        for ch in word.chars() {
            let c = cw(ch);
            if c <= width.saturating_sub(curw) {
                cur.push(ch);
                curw += c;
            } else {
                if curw == 0 {
                    // no progress possible: a character wider than the line
                    return (Wrapped::TooNarrow, cuts);
                }
                lines.push(std::mem::take(&mut cur));
                cuts += 1;
                if c > width {
                    return (Wrapped::TooNarrow, cuts);
                }
                cur.push(ch);
                curw = c;
            }
        }
    }
    if !cur.is_empty() {
        lines.push(cur);
    }
    (Wrapped::Lines(lines), cuts)
}

/// A word of the given display width following pattern `pat`.
fn make_word(width: usize, pat: usize, salt: usize) -> String {
    let letter = |i: usize| (b'a' + ((i + salt) % 26) as u8) as char;
    let mut s = String::new();
    match pat % 4 {
        1 if width >= 2 => {
            s.push(WIDE[salt % WIDE.len()]);
            for i in 0..width - 2 {
                s.push(letter(i));
            }
        }
        2 if width >= 2 => {
            for i in 0..width - 2 {
                s.push(letter(i));
            }
            s.push(WIDE[(salt + 1) % WIDE.len()]);
        }
        3 => {
            for i in 0..width {
                s.push(letter(i));
                if i == width / 2 {
                    s.push(COMB[salt % COMB.len()]);
                }
            }
        }
        _ => {
            for i in 0..width {
                s.push(letter(i));
            }
        }
    }
    s
}

/// Decode an index into a tuple of word widths (1..=maxw), tuples of length 1 first.
fn decode_tuple(mut idx: u64, maxw: u64, max_words: u32) -> Vec<usize> {
    for k in 1..=max_words {
        let n = maxw.pow(k);
        if idx < n {
            let mut v = Vec::new();
            for _ in 0..k {
                v.push((idx % maxw) as usize + 1);
                idx /= maxw;
            }
            return v;
        }
        idx -= n;
    }
    vec![1]
}

/// Split the word sequence across text nodes / inline elements at random cut points.
fn split_markup(rng: &mut Rng, words: &[String]) -> Vec<Node> {
    // flatten into characters with explicit spaces, then cut
    let mut nodes: Vec<Node> = Vec::new();
    let tags = ["em", "strong", "code", "span", "i", "a"];
    let mut buf: Vec<Node> = Vec::new();
    let mut open: Option<&str> = None;
    let flush =
        |nodes: &mut Vec<Node>, buf: &mut Vec<Node>, open: &mut Option<&str>, rng: &mut Rng| {
            if buf.is_empty() {
                *open = None;
                return;
            }
            match open.take() {
                Some(t) => {
                    let mut e = El::with(t, std::mem::take(buf));
                    if t == "a" {
                        e.attrs.push(("href".into(), format!("/{}", rng.below(100))));
                    }
                    // an id puts a zero-width fragment marker where the element starts,
                    // possibly in the middle of a word: it is not a place to break the line
                    if rng.chance(1, 6) {
                        e.attrs.push(("id".into(), format!("m{}", rng.below(1000))));
                    }
                    nodes.push(e.node());
                }
                None => nodes.append(buf),
            }
        };
    for (wi, w) in words.iter().enumerate() {
        if wi > 0 {
            // the space may go inside or outside the current element
            if rng.chance(1, 3) {
                flush(&mut nodes, &mut buf, &mut open, rng);
            }
            if rng.chance(1, 8) {
                // the space between two words sits alone inside an inline element
                flush(&mut nodes, &mut buf, &mut open, rng);
                let t = *rng.pick(&["em", "strong", "code", "span", "i"]);
                nodes.push(El::with(t, vec![Node::Space]).node());
            } else if rng.chance(1, 8) {
                // white space that is not ASCII (no-break space, em space, ideographic space,
                // vertical tab): every char::is_whitespace character separates words
                buf.push(Node::Raw(rng.pick(&["\u{a0}", "\u{2003}", "\u{3000}", "\u{b}", "\u{a0} ", " \u{2003}", "\u{2009}\u{a0}"]).to_string()));
            } else {
                buf.push(Node::Space);
            }
            if rng.chance(1, 3) {
                flush(&mut nodes, &mut buf, &mut open, rng);
                if rng.chance(1, 2) {
                    open = Some(*rng.pick(&tags));
                }
            }
        }
        // cut inside the word?
        let chars: Vec<char> = w.chars().collect();
        // a zero-width character alone in a text node of its own (in an element, or
        // between comments): it still belongs to the character before it
        if let Some(k) = chars.iter().position(|c| cw(*c) == 0) {
            if k >= 1 && rng.chance(1, 3) {
                buf.push(Node::Word(chars[..k].iter().collect()));
                flush(&mut nodes, &mut buf, &mut open, rng);
                let mut e = k + 1;
                while e < chars.len() && cw(chars[e]) == 0 && rng.chance(1, 2) {
                    e += 1;
                }
                let mark = Node::Word(chars[k..e].iter().collect());
                if rng.chance(1, 2) {
                    let t = *rng.pick(&["em", "strong", "code", "span", "i"]);
                    nodes.push(El::with(t, vec![mark]).node());
                } else {
                    nodes.push(Node::Comment("x".into()));
                    nodes.push(mark);
                    nodes.push(Node::Comment("y".into()));
                }
                if e < chars.len() {
                    buf.push(Node::Word(chars[e..].iter().collect()));
                }
                continue;
            }
        }
        if chars.len() >= 2 && rng.chance(1, 3) {
            // cut before a base character (never before a combining mark)
            let mut cut = rng.range(1, chars.len() - 1);
            while cut < chars.len() && cw(chars[cut]) == 0 {
                cut += 1;
            }
            if cut < chars.len() {
                buf.push(Node::Word(chars[..cut].iter().collect()));
                flush(&mut nodes, &mut buf, &mut open, rng);
                match rng.below(4) {
                    0 => nodes.push(Node::Comment("x".into())),
                    1 => open = Some(*rng.pick(&tags)),
                    2 => nodes.push(El::new("a").attr("name", &format!("n{}", rng.below(1000))).node()),
                    _ => {}
                }
                buf.push(Node::Word(chars[cut..].iter().collect()));
                continue;
            }
        }
        buf.push(Node::Word(w.clone()));
    }
    flush(&mut nodes, &mut buf, &mut open, rng);
    nodes
}

fn compare(
    out: &mut CaseOut,
    variant: &str,
    words: &[String],
    eff_width: usize,
    must_ok: bool,
    got: &Outcome<Vec<String>>,
    input: &[u8],
    w: usize,
    cfg: &Cfg,
) -> bool {
    let (exp, cuts) = greedy_wrap(words, eff_width);
    out.inc("layouts_compared");
    out.count("ref_hard_wraps", cuts as u64);
    let nontrivial = match &exp {
        Wrapped::Lines(l) => l.len() > 1 || cuts > 0,
        Wrapped::TooNarrow => true,
    };
    if nontrivial {
        let mut h = crate::rng::hash_str(variant) ^ (eff_width as u64).wrapping_mul(0x9E37);
        for wd in words {
            h = crate::rng::mix(h, sw_chars(wd) as u64);
        }
        out.observe(h);
    }
    match (&exp, got) {
        (Wrapped::Lines(e), Outcome::Ok(g)) => {
            if e != g {
                let class = if cuts > 0 { "hard-wrap" } else { "greedy" };
                out.violate(
                    format!("wrap-differs:{}:{}", variant, class),
                    format!(
                        "{}: lines differ from the greedy reference at effective width {}: expected {:?} got {:?}",
                        variant, eff_width, e, g
                    ),
                    witness(input, w, cfg, json!({"words": words, "effective_width": eff_width, "expected": e, "got": g})),
                );
                return false;
            }
        }
        (Wrapped::TooNarrow, Outcome::TooNarrow) => {
            out.inc("ref_too_narrow");
        }
        (Wrapped::TooNarrow, Outcome::Ok(g)) => {
            out.inc("ref_too_narrow");
            if must_ok {
                out.violate(
                    format!("wrap-ok-but-ref-too-narrow:{}", variant),
                    format!("{}: reference says a width-2 character cannot fit (TooNarrow) but rendering gave {:?}", variant, g),
                    witness(input, w, cfg, json!({"words": words, "effective_width": eff_width})),
                );
                return false;
            }
        }
        (Wrapped::Lines(e), Outcome::TooNarrow) => {
            if must_ok {
                out.violate(
                    format!("wrap-too-narrow:{}", variant),
                    format!("{}: rendering returned TooNarrow but the reference lays the paragraph out as {:?}", variant, e),
                    witness(input, w, cfg, json!({"words": words, "effective_width": eff_width})),
                );
                return false;
            }
        }
        _ => {} // panics etc. are C01's subject
    }
    true
}

fn lines_of(o: Outcome<String>) -> Outcome<Vec<String>> {
    o.map(|s| s.lines().map(|l| l.to_string()).collect())
}

fn run_words(out: &mut CaseOut, rng: &mut Rng, words: &[String], widths: &[usize]) {
    // variant 1: one text node in a <p>, plain_no_decorate
    let text_nodes: Vec<Node> = {
        let mut v = Vec::new();
        for (i, w) in words.iter().enumerate() {
            if i > 0 {
                v.push(Node::Space);
            }
            v.push(Node::Word(w.clone()));
        }
        v
    };
    let p_doc = vec![El::with("p", text_nodes.clone()).node()];
    let p_bytes = ast::serialize(&p_doc, &mut Fmt::layout_only(rng.fork()));
    let cfg_plain = Cfg::plain_nd();
    // variant 2: split across inline elements, rich
    let split = split_markup(rng, words);
    let s_doc = vec![El::with("p", split).node()];
    let s_bytes = ast::serialize(&s_doc, &mut Fmt::layout_only(rng.fork()));
    let cfg_rich = Cfg::rich();
    out.inc("split_across_elements");
    for &w in widths {
        let g = lines_of(render_string(&cfg_plain, &p_bytes, w));
        out.evals += 1;
        if out.sample.is_none() {
            if let Outcome::Ok(l) = &g {
                out.sample = Some(json!({"words": words, "width": w, "input": String::from_utf8_lossy(&p_bytes), "lines": l}));
            }
        }
        if !compare(out, "plain-single-text", words, w, true, &g, &p_bytes, w, &cfg_plain) {
            return;
        }
        let g = render_lines(&cfg_rich, &s_bytes, w).map(|ls| ls.iter().map(line_text).collect());
        out.evals += 1;
        if !compare(out, "rich-split-inline", words, w, true, &g, &s_bytes, w, &cfg_rich) {
            return;
        }
    }
    // variant 3: max_wrap_width
    {
        let w = *rng.pick(widths);
        let m = rng.range(1, w + 3);
        let mut cfg = Cfg::plain_nd();
        cfg.max_wrap = Some(m);
        let g = lines_of(render_string(&cfg, &p_bytes, w));
        out.evals += 1;
        if !compare(out, "max-wrap-width", words, m.min(w), true, &g, &p_bytes, w, &cfg) {
            return;
        }
    }
    // variant 5: the paragraph follows a block that renders to nothing, and is
    // built from several text nodes / inline elements
    {
        let w = *rng.pick(widths);
        let lead = *rng.pick(&["<p> </p>", "<h2></h2>", "<div><p> </p></div>", "<p><br></p>", "<blockquote></blockquote>", "<ul></ul>"]);
        let split = split_markup(rng, words);
        let s_doc = vec![El::with("p", split).node()];
        let mut bytes = lead.as_bytes().to_vec();
        bytes.extend_from_slice(&ast::serialize(&s_doc, &mut Fmt::canonical()));
        let cfg = Cfg::rich();
        let g = render_lines(&cfg, &bytes, w).map(|ls| {
            let mut v: Vec<String> = ls.iter().map(line_text).collect();
            // the empty leading block may contribute empty lines before the paragraph
            while v.first().map(|l| l.is_empty()).unwrap_or(false) {
                v.remove(0);
            }
            v
        });
        out.evals += 1;
        // (an empty heading still needs room for its "## " prefix)
        if !compare(out, "after-empty-block", words, w, w >= 4, &g, &bytes, w, &cfg) {
            return;
        }
    }
    // variant 6: max_wrap_width on a paragraph that starts with a fragment marker
    {
        let w = *rng.pick(widths);
        let m = rng.range(1, w + 2);
        let mut e = El::with("p", text_nodes.clone());
        match rng.below(3) {
            0 => e.attrs.push(("id".into(), "frag".into())),
            1 => e.children.insert(0, El::new("a").attr("name", "anchor").node()),
            _ => e.children.insert(0, El::new("span").attr("id", "s").node()),
        }
        let bytes = ast::serialize(&[e.node()], &mut Fmt::canonical());
        let mut cfg = Cfg::plain_nd();
        cfg.max_wrap = Some(m);
        let g = lines_of(render_string(&cfg, &bytes, w));
        out.evals += 1;
        if !compare(out, "max-wrap-width-with-id", words, m.min(w), true, &g, &bytes, w, &cfg) {
            return;
        }
    }
    // variant 7: a <br> in the middle, with collapsible white space before and / or after
    // it in the source: each part is filled on its own, and no line starts or ends with
    // a space
    if words.len() >= 2 {
        let w = *rng.pick(widths);
        let k = rng.range(1, words.len() - 1);
        let mut kids: Vec<Node> = Vec::new();
        for (i, wd) in words.iter().enumerate() {
            if i == k {
                if rng.chance(1, 2) {
                    kids.push(Node::Space);
                }
                kids.push(El::new("br").node());
                if rng.chance(1, 2) {
                    kids.push(Node::Space);
                }
            } else if i > 0 {
                kids.push(Node::Space);
            }
            kids.push(Node::Word(wd.clone()));
        }
        let bytes = ast::serialize(&[El::with("p", kids).node()], &mut Fmt::layout_only(rng.fork()));
        let cfg = Cfg::plain_nd();
        let g = lines_of(render_string(&cfg, &bytes, w));
        out.evals += 1;
        if let ((Wrapped::Lines(a), _), (Wrapped::Lines(b), _), Outcome::Ok(got)) = (greedy_wrap(&words[..k], w), greedy_wrap(&words[k..], w), &g) {
            out.inc("layouts_compared");
            let mut exp = a.clone();
            exp.extend(b.iter().cloned());
            if &exp != got {
                out.violate(
                    "wrap-differs:around-br",
                    format!("a paragraph with a <br> after word {}: expected {:?} (each part filled greedily on its own) got {:?}", k, exp, got),
                    witness(&bytes, w, &cfg, json!({"words": words, "expected": exp, "got": got})),
                );
                return;
            }
        }
    }
    // variant 4: inside one prefixed block
    {
        let w = *rng.pick(widths);
        // (a fifth of the quotes are rendered by a custom decorator whose quote prefix is
        // two columns wide but three or four bytes long)
        let custom_quote = rng.chance(1, 5);
        let (doc, pw): (Vec<Node>, usize) = match if custom_quote { 0 } else { rng.below(4) } {
            0 => (vec![El::with("blockquote", text_nodes.clone()).node()], 2),
            1 => (
                vec![El::with("ul", vec![El::with("li", text_nodes.clone()).node()]).node()],
                2,
            ),
            2 => (
                vec![El::with("ol", vec![El::with("li", text_nodes.clone()).node()]).node()],
                3,
            ),
            _ => (vec![El::with("h2", text_nodes.clone()).node()], 3),
        };
        if w > pw {
            let eff = w - pw;
            let bytes = ast::serialize(&doc, &mut Fmt::canonical());
            let (cfg, pchars) = if custom_quote {
                let mut spec = CustomSpec::ascii();
                spec.quote = rng.pick(&["\u{2502} ", "\u{ff1e}"]).to_string();
                let n = spec.quote.chars().count();
                (Cfg::new(Deco::Custom(spec)), n)
            } else {
                (Cfg::plain_nd(), pw)
            };
            let g = lines_of(render_string(&cfg, &bytes, w)).map(|ls: Vec<String>| {
                ls.iter()
                    .map(|l| l.chars().skip(pchars).collect::<String>())
                    .collect()
            });
            out.evals += 1;
            // Ok is required when the inner width can hold the minimum the
            // layout reserves (3) or the whole content
            let total: usize = words.iter().map(|x| sw_chars(x)).sum::<usize>() + words.len() - 1;
            let must_ok = eff >= 3 || eff >= total;
            compare(out, "prefixed-block", words, eff, must_ok, &g, &bytes, w, &cfg);
        }
    }
}

fn run_case(seed: u64, idx: u64, tier: Tier, out: &mut CaseOut) {
    let mut rng = Rng::for_case(seed, "C04", idx);
    let (maxw, maxwords) = match tier {
        Tier::Quick => (QUICK_MAXW, QUICK_WORDS),
        Tier::Thorough => (THOR_MAXW, THOR_WORDS),
    };
    let nt = tuples(maxw, maxwords);
    if idx < nt {
        out.inc("tuples_enumerated");
        let widths_tuple = decode_tuple(idx, maxw, maxwords);
        // rotate patterns by index so that every pattern meets every tuple position over seeds
        let words: Vec<String> = widths_tuple
            .iter()
            .enumerate()
            .map(|(i, &w)| make_word(w, (idx as usize + i + (seed as usize)) % 4, i * 7 + idx as usize))
            .collect();
        let widths: Vec<usize> = (1..=40).collect();
        run_words(out, &mut rng, &words, &widths);
    } else {
        out.inc("random_paragraphs");
        let n = rng.range(1, 60);
        let maxlen = *rng.pick(&[3usize, 8, 15, 30]);
        let words: Vec<String> = (0..n)
            .map(|i| {
                let w = rng.range(1, maxlen);
                make_word(w, rng.below(4), i + rng.below(26))
            })
            .collect();
        let widths: Vec<usize> = (0..5).map(|_| rng.range(1, 40)).collect();
        run_words(out, &mut rng, &words, &widths);
    }
}
