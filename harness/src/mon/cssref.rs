//! Reference CSS semantics used by C18/C19/C20: selector matching on the
//! oracle DOM (works on the generator's selector AST — no CSS parsing in the
//! oracle) and the cascade.

use super::cssgen::{Comb, Compound, Selector, Simple};
use crate::odom::{Id, Kind, ODom};

/// 1-based index of `el` among its element siblings.
pub fn element_index(dom: &ODom, el: Id) -> usize {
    let Some(p) = dom.parent(el) else { return 1 };
    let mut idx = 0;
    for &c in dom.children(p) {
        if dom.is_element(c) {
            idx += 1;
            if c == el {
                return idx;
            }
        }
    }
    idx.max(1)
}

pub fn nth_matches(a: i32, b: i32, idx: usize) -> bool {
    // exists n >= 0 with a*n + b == idx
    let idx = idx as i64;
    let (a, b) = (a as i64, b as i64);
    if a == 0 {
        return idx == b;
    }
    let d = idx - b;
    d % a == 0 && d / a >= 0
}

pub fn compound_matches(dom: &ODom, el: Id, c: &Compound) -> bool {
    let Kind::Element { name, attrs, .. } = dom.kind(el) else {
        return false;
    };
    for s in &c.0 {
        let ok = match s {
            Simple::Tag(t) => name.eq_ignore_ascii_case(t),
            Simple::Class(cl) => attrs
                .iter()
                .any(|(k, v)| k == "class" && v.split_ascii_whitespace().any(|x| x == cl)),
            Simple::Id(i) => attrs.iter().any(|(k, v)| k == "id" && v == i),
            Simple::Star => true,
            Simple::PseudoEl(_) => true,
            Simple::Nth { a, b, .. } => nth_matches(*a, *b, element_index(dom, el)),
        };
        if !ok {
            return false;
        }
    }
    true
}

fn parent_element(dom: &ODom, el: Id) -> Option<Id> {
    let p = dom.parent(el)?;
    if dom.is_element(p) {
        Some(p)
    } else {
        None
    }
}

/// Right-to-left matching with full backtracking for descendant combinators.
pub fn selector_matches(dom: &ODom, el: Id, sel: &Selector) -> bool {
    // steps[0] = first compound, combinators between
    let mut comps: Vec<&Compound> = vec![&sel.first];
    let mut combs: Vec<Comb> = Vec::new();
    for (c, k) in &sel.rest {
        combs.push(*c);
        comps.push(k);
    }
    fn rec(dom: &ODom, el: Id, comps: &[&Compound], combs: &[Comb]) -> bool {
        let n = comps.len();
        if !compound_matches(dom, el, comps[n - 1]) {
            return false;
        }
        if n == 1 {
            return true;
        }
        match combs[n - 2] {
            Comb::Child => match parent_element(dom, el) {
                Some(p) => rec(dom, p, &comps[..n - 1], &combs[..n - 2]),
                None => false,
            },
            Comb::Desc => {
                let mut cur = parent_element(dom, el);
                while let Some(p) = cur {
                    if rec(dom, p, &comps[..n - 1], &combs[..n - 2]) {
                        return true;
                    }
                    cur = parent_element(dom, p);
                }
                false
            }
        }
    }
    rec(dom, el, &comps, &combs)
}

pub fn any_selector_matches(dom: &ODom, el: Id, sels: &[Selector]) -> bool {
    sels.iter().any(|s| selector_matches(dom, el, s))
}

// ---------------------------------------------------------------------------
// Cascade

#[derive(Clone, Copy, Debug, PartialEq, Eq, PartialOrd, Ord, Hash)]
pub enum RefOrigin {
    Agent,
    User,
    Author,
}

#[derive(Clone, Debug)]
pub struct RefDecl<T> {
    pub origin: RefOrigin,
    pub important: bool,
    pub inline: bool,
    /// (ids, classes+pseudo, types)
    pub spec: (u32, u32, u32),
    /// position in the order the declarations are given to the renderer within
    /// their origin (later wins)
    pub order: usize,
    pub value: T,
}

impl<T> RefDecl<T> {
    /// CSS cascade sort key: later/greater wins.
    pub fn key(&self) -> (u8, u8, (u32, u32, u32), usize) {
        let rank = match (self.important, self.origin) {
            (false, RefOrigin::Agent) => 0,
            (false, RefOrigin::User) => 1,
            (false, RefOrigin::Author) => 2,
            (true, RefOrigin::Author) => 3,
            (true, RefOrigin::User) => 4,
            (true, RefOrigin::Agent) => 5,
        };
        (rank, self.inline as u8, self.spec, self.order)
    }
}

pub fn cascade_winner<T: Clone>(decls: &[RefDecl<T>]) -> Option<T> {
    decls.iter().max_by_key(|d| d.key()).map(|d| d.value.clone())
}
