//! One monitor per property.

pub mod common;
pub mod cssgen;
pub mod tables;

pub mod c01;
pub mod c02;
pub mod c03;
pub mod c04;
pub mod c05;
pub mod c07;
pub mod c08;
pub mod c09;
pub mod c10;
pub mod c11;
pub mod c12;
pub mod c13;
pub mod c14;
pub mod c15;
pub mod c16;
pub mod c17;
pub mod c18;
pub mod c19;
pub mod c20;
pub mod cssref;

use crate::run::Monitor;

pub fn all() -> Vec<&'static Monitor> {
    vec![
        &c01::MONITOR,
        &c02::MONITOR,
        &c03::MONITOR,
        &c04::MONITOR,
        &c05::MONITOR_C05,
        &c05::MONITOR_C06,
        &c07::MONITOR,
        &c08::MONITOR,
        &c09::MONITOR,
        &c10::MONITOR,
        &c11::MONITOR,
        &c12::MONITOR,
        &c13::MONITOR,
        &c14::MONITOR,
        &c15::MONITOR,
        &c16::MONITOR,
        &c17::MONITOR,
        &c18::MONITOR,
        &c19::MONITOR,
        &c20::MONITOR,
    ]
}

/// Per-document judges (input, configuration, width) for the `shrink` debugging command.
pub fn judge_for(id: &str) -> Option<fn(&mut crate::run::CaseOut, &[u8], &crate::exec::Cfg, usize)> {
    match id {
        "C03" => Some(c03::judge_doc),
        "C14" => Some(c14::judge_doc),
        _ => None,
    }
}
