//! One monitor per property.

pub mod common;
pub mod cssgen;

pub mod c01;
pub mod c02;

use crate::run::Monitor;

pub fn all() -> Vec<&'static Monitor> {
    vec![&c01::MONITOR, &c02::MONITOR]
}
