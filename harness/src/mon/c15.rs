//! C15 — layout options are orthogonal and do only what they say.

use super::c11::max_prefix;
use super::common::*;
use crate::ast;
use crate::exec::*;
use crate::gen::Profile;
use crate::rng::Rng;
use crate::run::{CaseOut, Monitor, Plan, Tier};
use crate::textutil::*;
use serde_json::json;

pub static MONITOR: Monitor = Monitor {
    id: "C15",
    title: "Layout options are orthogonal and do only what they say",
    rule: "Metamorphic pairs (base, base+o) on grammar documents (with and without the construct each option targets), widths 1..=100, base decorators plain/plain_no_decorate/rich/trivial. Relations: max_wrap_width(m) with m>=w equals base; m<w on flat documents (p/div/inline, no links) equals render(d,m), on table-free documents every line <= P+m; pad_block_width: same number of lines, rstrip(padded)==rstrip(base) per line, padded lines <= w; unicode_strikeout(false) == default with every U+0336 deleted; no_table_borders / raw_mode: no box-drawing character, same T-projection multiset (raw: same sequence as the document); link_footnotes(false): no [k] reference and no list, same T-projection, and at a non-wrapping width equal to the footnote output with references and list removed; no_link_wrapping: identical body, footnote lines are the unwrapped '[k]: href'; non-applicable options (no table / no link / no <s> / no prefixed block or table for min_wrap_width) leave the output byte-identical. Distinct/non-trivial = distinct (document,width,option) pairs in which the document contains the construct the option targets and both renderings are Ok.",
    assumptions: &[
        "P (prefix depth) computed from the generator's AST as in C11",
    ],
    plan,
    run_case,
    thresholds,
    hang_is_violation: false,
    budget: None,
};

fn plan(tier: Tier) -> Plan {
    match tier {
        Tier::Quick => Plan {
            cases: 400_000,
            time_cap_s: 40,
            case_timeout_s: 20,
            exhaustive: false,
        },
        Tier::Thorough => Plan {
            cases: 5_000_000,
            time_cap_s: 420,
            case_timeout_s: 20,
            exhaustive: false,
        },
    }
}

fn thresholds(_t: Tier) -> Vec<(&'static str, u64)> {
    vec![
        ("cases", 1000),
        ("distinct", 500),
        ("rel:max_wrap_ge", 100),
        ("rel:max_wrap_flat", 100),
        ("rel:max_wrap_bound", 100),
        ("rel:pad", 100),
        ("rel:strikeout", 100),
        ("rel:no_borders", 100),
        ("rel:raw", 100),
        ("rel:footnotes_off", 100),
        ("rel:no_link_wrap", 100),
        ("rel:noop", 300),
    ]
}

/// documents carry ids on some elements: options must behave the same
fn with_ids(mut p: Profile) -> Profile {
    p.id_permille = 120;
    p.lead_br = true;
    p
}

fn base_cfg(rng: &mut Rng) -> Cfg {
    match rng.below(4) {
        0 => Cfg::plain(),
        1 => Cfg::plain_nd(),
        2 => Cfg::rich(),
        _ => Cfg::trivial(),
    }
}

fn both_ok<'a>(a: &'a Outcome<String>, b: &'a Outcome<String>) -> Option<(&'a String, &'a String)> {
    match (a, b) {
        (Outcome::Ok(x), Outcome::Ok(y)) => Some((x, y)),
        _ => None,
    }
}

fn viol(out: &mut CaseOut, sig: &str, what: String, input: &[u8], w: usize, base: &Cfg, opt: &Cfg, a: &Outcome<String>, b: &Outcome<String>) {
    let show = |o: &Outcome<String>| match o {
        Outcome::Ok(s) => truncate(s, 1200),
        o => o.kind(),
    };
    out.violate(
        sig.to_string(),
        what,
        json!({"input": String::from_utf8_lossy(input), "width": w, "base_config": base.describe(),
               "option_config": opt.describe(), "base_output": show(a), "option_output": show(b)}),
    );
}

fn strip_refs(s: &str) -> String {
    // remove "[digits]" occurrences
    let cs: Vec<char> = s.chars().collect();
    let mut out = String::new();
    let mut i = 0;
    while i < cs.len() {
        if cs[i] == '[' {
            let mut j = i + 1;
            while j < cs.len() && cs[j].is_ascii_digit() {
                j += 1;
            }
            if j > i + 1 && j < cs.len() && cs[j] == ']' {
                i = j + 1;
                continue;
            }
        }
        out.push(cs[i]);
        i += 1;
    }
    out
}

fn is_footnote_line(l: &str) -> bool {
    if !l.starts_with('[') {
        return false;
    }
    let rest = &l[1..];
    let digits: String = rest.chars().take_while(|c| c.is_ascii_digit()).collect();
    !digits.is_empty() && rest[digits.len()..].starts_with("]: ")
}

fn run_case(seed: u64, idx: u64, _tier: Tier, out: &mut CaseOut) {
    let mut rng = Rng::for_case(seed, "C15", idx);
    let rel = idx % 10;
    let w = pick_width(&mut rng, 100);
    let base = base_cfg(&mut rng);
    match rel {
        0 => {
            // max_wrap_width(m), m >= w: no effect
            let doc = gen_doc(&mut rng, &with_ids(Profile::full()));
            let input = ser_canonical(&doc);
            let mut opt = base.clone();
            opt.max_wrap = Some(w + rng.below(50));
            let a = render_string(&base, &input, w);
            let b = render_string(&opt, &input, w);
            out.evals += 2;
            out.inc("rel:max_wrap_ge");
            if a.is_total() && b.is_total() && a != b {
                viol(out, "max_wrap>=w-changes-output", format!("max_wrap_width({}) >= width {} changed the output", opt.max_wrap.unwrap(), w), &input, w, &base, &opt, &a, &b);
            } else if a.is_ok() {
                out.observe(crate::rng::hash_bytes(&input) ^ w as u64 ^ 0x100);
            }
        }
        1 => {
            // flat document: max_wrap(m) at width w == plain rendering at width m
            let mut p = Profile::full().no_tables().no_pre();
            p.lists = false;
            p.quotes = false;
            p.headings = false;
            p.dl = false;
            p.links = false;
            let doc = gen_doc(&mut rng, &with_ids(p));
            let input = ser_canonical(&doc);
            let m = rng.range(1, w);
            let mut opt = base.clone();
            opt.max_wrap = Some(m);
            let a = render_string(&base, &input, m);
            let b = render_string(&opt, &input, w);
            out.evals += 2;
            out.inc("rel:max_wrap_flat");
            if a.is_total() && b.is_total() && a != b {
                viol(out, "max_wrap-flat-differs", format!("flat document: max_wrap_width({}) at width {} differs from rendering at width {}", m, w, m), &input, w, &base, &opt, &a, &b);
            } else if a.is_ok() && m < w {
                out.observe(crate::rng::hash_bytes(&input) ^ w as u64 ^ 0x200);
            }
        }
        2 => {
            // table-free: lines <= P + m
            let p = with_ids(Profile::full().no_tables());
            let doc = gen_doc(&mut rng, &p);
            let input = ser_canonical(&doc);
            let m = rng.range(1, w);
            let mut opt = base.clone();
            opt.max_wrap = Some(m);
            opt.footnotes = Some(false);
            let b = render_string(&opt, &input, w);
            out.evals += 1;
            out.inc("rel:max_wrap_bound");
            if let Outcome::Ok(s) = &b {
                let pfx = max_prefix(&doc, &opt.deco);
                let maxw = s.lines().map(sw_min).max().unwrap_or(0);
                if maxw > pfx + m {
                    viol(out, "max_wrap-bound-exceeded", format!("max_wrap_width({}): a line is {} wide, more than prefix depth {} + {}", m, maxw, pfx, m), &input, w, &base, &opt, &b, &b);
                } else {
                    out.observe(crate::rng::hash_str(s) ^ 0x300);
                }
            }
        }
        3 => {
            // pad_block_width only appends trailing spaces
            let doc = gen_doc(&mut rng, &with_ids(Profile::full()));
            let mut input = ser_canonical(&doc);
            if idx == 3 {
                // regression input: empty preformatted line followed by a block
                input = b"<pre>\n\n</pre><p>x</p>".to_vec();
            }
            let mut opt = base.clone();
            opt.pad = true;
            let a = render_string(&base, &input, w);
            let b = render_string(&opt, &input, w);
            out.evals += 2;
            out.inc("rel:pad");
            if let Some((x, y)) = both_ok(&a, &b) {
                let xl: Vec<&str> = x.lines().collect();
                let yl: Vec<&str> = y.lines().collect();
                let mut bad = None;
                if xl.len() != yl.len() {
                    bad = Some(format!("line count {} vs {}", xl.len(), yl.len()));
                } else {
                    for (i, (p, q)) in xl.iter().zip(yl.iter()).enumerate() {
                        if rstrip(p) != rstrip(q) {
                            bad = Some(format!("line {} differs beyond trailing spaces: {:?} vs {:?}", i, p, q));
                            break;
                        }
                        if sw_min(q) > w {
                            bad = Some(format!("padded line {} is wider than the width", i));
                            break;
                        }
                    }
                }
                if let Some(b2) = bad {
                    // classify: is the only difference extra whitespace-only lines?
                    let nb = |v: &Vec<&str>| -> Vec<String> {
                        v.iter().map(|l| rstrip(l).to_string()).filter(|l| !l.is_empty()).collect()
                    };
                    // (inside table cells the extra blank line shows up as rows of
                    // bars and padding: compare the lines that carry document text)
                    let tp = |v: &Vec<&str>| -> Vec<String> {
                        v.iter().map(|l| t_proj(l)).filter(|l| !l.is_empty()).collect()
                    };
                    // (next to a taller cell the extra blank line only moves the
                    // cell's text down: compare the text column by column)
                    let cols = |v: &Vec<&str>| -> Vec<Vec<String>> {
                        let mut c: Vec<Vec<String>> = Vec::new();
                        for l in v {
                            for (j, f) in l.split('│').enumerate() {
                                let f = f.trim();
                                if f.is_empty() || f.chars().all(|ch| "─┬┴┼├┤ ".contains(ch)) {
                                    continue;
                                }
                                if c.len() <= j {
                                    c.resize(j + 1, Vec::new());
                                }
                                c[j].push(f.to_string());
                            }
                        }
                        c
                    };
                    let fits = yl.iter().all(|q| sw_min(q) <= w);
                    let mut ta: Vec<char> = t_proj(x).chars().collect();
                    let mut tb: Vec<char> = t_proj(y).chars().collect();
                    ta.sort();
                    tb.sort();
                    let sig = if fits && pre_has_blank_line(&input) && ta == tb {
                        // the recorded defect: a whitespace-only line of preformatted
                        // text is the only kind of blank line that is padded; the extra
                        // blank line it causes moves the text after it down (inside a
                        // table row: relative to the neighbouring cells)
                        "pad-adds-or-removes-blank-lines:pre-with-blank-line"
                    } else if fits && (nb(&xl) == nb(&yl) || tp(&xl) == tp(&yl) || cols(&xl) == cols(&yl)) {
                        "pad-adds-or-removes-blank-lines:no-blank-pre-line"
                    } else {
                        "pad-changes-more-than-trailing-spaces"
                    };
                    viol(out, sig, format!("pad_block_width: {}", b2), &input, w, &base, &opt, &a, &b);
                } else if x != y {
                    out.observe(crate::rng::hash_str(y) ^ 0x400);
                }
            } else if a.is_total() && b.is_total() && a.kind() != b.kind() {
                viol(out, "pad-changes-outcome", "pad_block_width changed whether rendering succeeds".into(), &input, w, &base, &opt, &a, &b);
            }
        }
        4 => {
            // unicode_strikeout(false) == default minus U+0336
            let mut p = Profile::full();
            p.strike = true;
            // struck-out runs may end in white space, also of the non-ASCII kind
            p.edge_space = rng.chance(1, 2);
            if rng.chance(1, 2) {
                p.uni_space_permille = 200;
            }
            let mut doc = gen_doc(&mut rng, &p);
            if rng.chance(1, 3) {
                ast::for_each_el_mut(&mut doc, &mut |e| {
                    if matches!(e.tag.as_str(), "s" | "del") && rng.chance(1, 2) {
                        e.children.push(ast::Node::Raw(rng.pick(&["\u{a0}", "\u{3000}", "\u{2003}", "\u{202f}", " "]).to_string()));
                    }
                });
            }
            let mut input = ser_canonical(&doc);
            if rng.chance(1, 4) {
                // emoji / variation-selector sequences inside struck-out text: the strike
                // marks must not change how lines are measured and padded
                input = crate::gen::sprinkle_unicode(&mut rng, &input, 60);
            }
            let mut opt = base.clone();
            opt.strikeout = Some(false);
            let a = render_string(&base, &input, w);
            let b = render_string(&opt, &input, w);
            out.evals += 2;
            out.inc("rel:strikeout");
            let has = ast::has_tag(&doc, "s") || ast::has_tag(&doc, "del");
            if let Some((x, y)) = both_ok(&a, &b) {
                let x2: String = x.chars().filter(|c| *c != '\u{336}').collect();
                if &x2 != y {
                    viol(out, if has {"strikeout-off-differs"} else {"strikeout-noop-differs"}, "unicode_strikeout(false) is not the default output with U+0336 deleted".into(), &input, w, &base, &opt, &a, &b);
                } else if has {
                    out.observe(crate::rng::hash_str(x) ^ 0x500);
                } else {
                    out.inc("rel:noop");
                }
            } else if a.is_total() && b.is_total() && a.kind() != b.kind() {
                viol(out, "strikeout-changes-outcome", "unicode_strikeout(false) changed whether rendering succeeds".into(), &input, w, &base, &opt, &a, &b);
            }
        }
        5 | 6 => {
            // no_table_borders / raw_mode
            let raw = rel == 6;
            let with_tables = rng.chance(3, 4);
            let p = if with_tables { Profile::full() } else { Profile::full().no_tables() };
            let doc = gen_doc(&mut rng, &p);
            let has = ast::has_tag(&doc, "table");
            let input = ser_canonical(&doc);
            let mut opt = base.clone();
            if raw {
                opt.raw = true;
            } else {
                opt.no_borders = true;
                // builder order: a later raw_mode(false) must not bring the borders back
                opt.raw_false_last = rng.chance(1, 3);
            }
            let a = render_string(&base, &input, w);
            let b = render_string(&opt, &input, w);
            out.evals += 2;
            out.inc(if raw { "rel:raw" } else { "rel:no_borders" });
            if !has {
                out.inc("rel:noop");
                if a.is_total() && b.is_total() && a != b {
                    viol(out, if raw {"raw-noop-differs"} else {"no_borders-noop-differs"}, "table option changed the output of a table-free document".into(), &input, w, &base, &opt, &a, &b);
                }
                return;
            }
            if let Outcome::Ok(y) = &b {
                // ('/' is the border of a stacked table; a wrapped href can put a single
                // '/' on a line of its own, so only a full-width run counts)
                if y.chars().any(is_box) || (raw && w >= 2 && !input.windows(2).any(|p| p == b"//") && y.lines().any(|l| l.chars().count() == w && l.chars().all(|c| c == '/'))) {
                    viol(out, if raw {"raw-has-box-chars"} else {"no_borders-has-box-chars"}, "box-drawing characters remain".into(), &input, w, &base, &opt, &a, &b);
                    return;
                }
                if let Outcome::Ok(x) = &a {
                    let mut xs: Vec<char> = t_proj(x).chars().collect();
                    let mut ys: Vec<char> = t_proj(y).chars().collect();
                    xs.sort_unstable();
                    ys.sort_unstable();
                    // if the base rendering itself lost text (C03's known table
                    // finding) the comparison says nothing about the option
                    let mut vs: Vec<char> = t_proj(&crate::odom::visible_string(&crate::odom::parse(&input))).chars().collect();
                    vs.sort_unstable();
                    if xs != vs {
                        out.inc("base_lost_text(see C03)");
                        return;
                    }
                    if xs != ys {
                        viol(out, if raw {"raw-changes-text"} else {"no_borders-changes-text"}, "the option changed which document text is rendered".into(), &input, w, &base, &opt, &a, &b);
                        return;
                    }
                    out.observe(crate::rng::hash_str(y) ^ 0x600);
                }
            }
        }
        7 => {
            // link_footnotes(false)
            let with_links = rng.chance(3, 4);
            let mut p = Profile::full();
            p.links = with_links;
            p.max_words = 5;
            let doc = gen_doc(&mut rng, &p);
            let has = ast::has_tag(&doc, "a");
            let input = ser_canonical(&doc);
            let mut on = base.clone();
            on.footnotes = Some(true);
            let mut off = base.clone();
            off.footnotes = Some(false);
            let big = 400; // wide enough that nothing wraps
            let a = render_string(&on, &input, big);
            let b = render_string(&off, &input, big);
            out.evals += 2;
            out.inc("rel:footnotes_off");
            if let Some((x, y)) = both_ok(&a, &b) {
                if !has {
                    out.inc("rel:noop");
                    if x != y {
                        viol(out, "footnotes-noop-differs", "link_footnotes changed the output of a link-free document".into(), &input, big, &on, &off, &a, &b);
                    }
                    return;
                }
                if y.lines().any(is_footnote_line) {
                    viol(out, "footnotes-off-has-list", "a footnote list appears with link_footnotes(false)".into(), &input, big, &on, &off, &a, &b);
                    return;
                }
                // without tables, removing refs and list from `on` gives `off`
                if !ast::has_tag(&doc, "table") && !ast::has_tag(&doc, "pre") {
                    // a space inside a link ("<a>x </a>") survives before "[k]" but is
                    // dropped at a line end: compare modulo runs of spaces
                    // (and modulo strike marks: a reference inside <s> is struck out too)
                    let x = &x.replace('\u{336}', "");
                    let y = &y.replace('\u{336}', "");
                    let norm = |s: String| -> String {
                        s.split(' ').filter(|p| !p.is_empty()).collect::<Vec<_>>().join(" ")
                    };
                    // a reference after a <br> inside the link sits on a line of its
                    // own: such lines disappear together with the reference
                    // (lines holding nothing but prefix characters are ignored on both sides)
                    let prefix_only = |s: &String| {
                        s.chars().all(|c| matches!(c, ' ' | '>' | '#' | '*' | '.' | '-') || c.is_ascii_digit())
                    };
                    let xl: Vec<String> = x
                        .lines()
                        .filter(|l| !is_footnote_line(l))
                        .map(strip_refs)
                        .map(norm)
                        .filter(|l| !prefix_only(l))
                        .collect();
                    let mut xl2 = xl.clone();
                    while xl2.last().map(|l| l.trim().is_empty()).unwrap_or(false) {
                        xl2.pop();
                    }
                    let mut yl: Vec<String> = y.lines().map(|l| norm(l.to_string())).filter(|l| !prefix_only(l)).collect();
                    while yl.last().map(|l| l.trim().is_empty()).unwrap_or(false) {
                        yl.pop();
                    }
                    if xl2 != yl {
                        viol(out, "footnotes-off-differs", "link_footnotes(false) is not the footnote output with references and list removed".into(), &input, big, &on, &off, &a, &b);
                        return;
                    }
                }
                out.observe(crate::rng::hash_str(x) ^ 0x700);
                // same document text at a wrapping width
                let a2 = render_string(&on, &input, w);
                let b2 = render_string(&off, &input, w);
                out.evals += 2;
                if let Some((x2, y2)) = both_ok(&a2, &b2) {
                    let mut xs: Vec<char> = t_proj(x2).chars().collect();
                    let mut ys: Vec<char> = t_proj(y2).chars().collect();
                    xs.sort_unstable();
                    ys.sort_unstable();
                    if xs != ys {
                        viol(out, "footnotes-off-changes-text", "link_footnotes(false) changed the rendered document text".into(), &input, w, &on, &off, &a2, &b2);
                    }
                }
            }
        }
        8 => {
            // no_link_wrapping: identical body, unwrapped footnote lines
            let mut p = Profile::full();
            p.max_words = 5;
            let with_links = rng.chance(3, 4);
            p.links = with_links;
            let doc = gen_doc(&mut rng, &p);
            let has = ast::has_tag(&doc, "a");
            let input = ser_canonical(&doc);
            let mut basef = base.clone();
            basef.footnotes = Some(true);
            let mut opt = basef.clone();
            opt.no_link_wrap = true;
            let a = render_string(&basef, &input, w);
            let b = render_string(&opt, &input, w);
            out.evals += 2;
            out.inc("rel:no_link_wrap");
            if let Some((x, y)) = both_ok(&a, &b) {
                if !has {
                    out.inc("rel:noop");
                    if x != y {
                        viol(out, "no_link_wrap-noop-differs", "no_link_wrapping changed the output of a link-free document".into(), &input, w, &basef, &opt, &a, &b);
                    }
                    return;
                }
                // y's footnote block: trailing lines that are footnote lines
                let yl: Vec<&str> = y.lines().collect();
                let mut k = yl.len();
                while k > 0 && is_footnote_line(yl[k - 1]) {
                    k -= 1;
                }
                let body_y = &yl[..k];
                let notes_y = &yl[k..];
                let xl: Vec<&str> = x.lines().collect();
                if xl.len() < k || &xl[..k] != body_y {
                    viol(out, "no_link_wrap-changes-body", "no_link_wrapping changed the document body".into(), &input, w, &basef, &opt, &a, &b);
                    return;
                }
                // re-join the wrapped notes of x: concatenation must equal concatenation of y's notes
                let joined_x: String = xl[k..].concat();
                let joined_y: String = notes_y.concat();
                if joined_x != joined_y {
                    viol(out, "no_link_wrap-changes-notes", "footnote text differs between wrapped and unwrapped form".into(), &input, w, &basef, &opt, &a, &b);
                    return;
                }
                if notes_y.iter().any(|l| sw_min(l) > w) {
                    out.inc("unwrapped_notes_wider_than_w");
                }
                out.observe(crate::rng::hash_str(y) ^ 0x800);
            } else if a.is_ok() && b.is_total() && !b.is_ok() {
                // (the reverse is legitimate: an unwrappable footnote character makes the
                // wrapped rendering TooNarrow while the unwrapped one succeeds)
                viol(out, "no_link_wrap-changes-outcome", "no_link_wrapping made a successful rendering fail".into(), &input, w, &basef, &opt, &a, &b);
            }
        }
        _ => {
            // min_wrap_width(k) is a no-op without prefixed blocks and tables
            let mut p = Profile::full().no_tables();
            p.lists = false;
            p.quotes = false;
            p.headings = false;
            p.dl = false;
            let doc = gen_doc(&mut rng, &p);
            let input = ser_canonical(&doc);
            let mut opt = base.clone();
            opt.min_wrap = Some(*rng.pick(&[1usize, 2, 5, 8, 20]));
            let a = render_string(&base, &input, w);
            let b = render_string(&opt, &input, w);
            out.evals += 2;
            out.inc("rel:noop");
            out.inc("rel:min_wrap_noop");
            if a.is_total() && b.is_total() && a != b {
                viol(out, "min_wrap-noop-differs", "min_wrap_width changed the output of a document without prefixed blocks or tables".into(), &input, w, &base, &opt, &a, &b);
            } else if a.is_ok() {
                out.observe(crate::rng::hash_bytes(&input) ^ w as u64 ^ 0x900);
            }
        }
    }
    if out.sample.is_none() {
        out.sample = Some(json!({"relation": rel, "width": w, "base": base.describe()}));
    }
}

/// Does the document hold a <pre> whose text has a whitespace-only line?
fn pre_has_blank_line(input: &[u8]) -> bool {
    let dom = crate::odom::parse(input);
    fn text_of(dom: &crate::odom::ODom, id: crate::odom::Id, s: &mut String) {
        for &c in dom.children(id) {
            match dom.kind(c) {
                crate::odom::Kind::Text(t) => s.push_str(t),
                crate::odom::Kind::Element { .. } => {
                    if dom.html_name(c) == Some("br") {
                        s.push('\n');
                    }
                    text_of(dom, c, s)
                }
                _ => {}
            }
        }
    }
    for id in 0..dom.nodes.len() {
        if dom.attached(id) && dom.html_name(id) == Some("pre") {
            let mut s = String::new();
            text_of(&dom, id, &mut s);
            if !s.is_empty() && s.split('\n').any(|l| l.trim().is_empty()) {
                return true;
            }
        }
    }
    false
}
