//! C13 — output does not depend on source formatting of collapsible whitespace.

use super::common::*;
use crate::ast::{self, Fmt};
use crate::exec::*;
use crate::gen::Profile;
use crate::rng::Rng;
use crate::run::{CaseOut, Monitor, Plan, Tier};
use serde_json::json;

pub static MONITOR: Monitor = Monitor {
    id: "C13",
    title: "Output does not depend on source formatting of collapsible whitespace",
    rule: "Metamorphic pairs: one table-free, pre-free grammar document (AST) is serialised twice - canonically (single spaces, no comments, no gaps between block tags) and with a random rewrite drawn from {every collapsible whitespace run replaced by another non-empty run over space/tab/LF/CRLF/FF, comments inserted next to such whitespace, inline runs wrapped in <span>, indentation/newlines between block-level tags, optional end tags omitted, attribute quoting varied}; each rewrite kind is also applied alone. Both sources are rendered at 3 widths in 1..=100 with plain (string) and rich (tagged lines with the zero-width fragment markers left out - their placement is C14's subject - so whitespace tagging is compared). Oracle: byte-equal strings / equal tagged lines / equal errors. Distinct/non-trivial = distinct (document, rewrite) pairs whose two sources differ as bytes and whose rendering is Ok and non-empty.",
    assumptions: &[
        "whitespace is inserted only where the property allows it: replacing existing collapsible runs, and between block-level siblings (never between inline elements)",
    ],
    plan,
    run_case,
    thresholds,
    hang_is_violation: false,
    budget: None,
};

fn plan(tier: Tier) -> Plan {
    match tier {
        Tier::Quick => Plan {
            cases: 80_000,
            time_cap_s: 40,
            case_timeout_s: 20,
            exhaustive: false,
        },
        Tier::Thorough => Plan {
            cases: 2_500_000,
            time_cap_s: 360,
            case_timeout_s: 20,
            exhaustive: false,
        },
    }
}

fn thresholds(_t: Tier) -> Vec<(&'static str, u64)> {
    vec![
        ("cases", 1000),
        ("pairs_compared", 5000),
        ("distinct", 500),
        ("rewrite:space", 200),
        ("rewrite:comments", 200),
        ("rewrite:span", 200),
        ("rewrite:block_gaps", 200),
        ("docs_with_strikeout", 100),
    ]
}

/// Hand-written pairs (canonical, rewritten, width) run as the first cases.
const PROBES: [(&str, &str, usize); 4] = [
    ("<blockquote>a b</blockquote>", "<blockquote>a <!--c-->b</blockquote>", 4),
    ("<p>x<sup>12</sup></p>", "<p>x<sup><span>12</span></sup></p>", 20),
    ("<p>Hello <em>big</em> world</p>", "<p>Hello\n\t<em>big</em>   world</p>", 9),
    ("<div><p>a</p><p>b</p></div>", "<div>\n  <p>a</p>\n  <!-- gap -->\n  <p>b</p>\n</div>", 10),
];

fn run_probe(idx: u64, out: &mut CaseOut) {
    let (base, variant, w) = PROBES[idx as usize];
    out.inc("probes");
    for cfg in [Cfg::plain(), Cfg::rich()] {
        let a = render_string(&cfg, base.as_bytes(), w);
        let b = render_string(&cfg, variant.as_bytes(), w);
        out.evals += 2;
        out.inc("pairs_compared");
        if a.is_total() && b.is_total() && a != b {
            let doc: Vec<ast::Node> = Vec::new();
            report(out, "probe", &doc, base.as_bytes(), variant.as_bytes(), w, &cfg, &a.kind_or_text(), &b.kind_or_text());
            return;
        }
    }
}

fn run_case(seed: u64, idx: u64, _tier: Tier, out: &mut CaseOut) {
    if (idx as usize) < PROBES.len() {
        run_probe(idx, out);
        return;
    }
    let mut rng = Rng::for_case(seed, "C13", idx);
    let mut p = Profile::full().no_tables().no_pre();
    p.max_depth = 5;
    p.id_permille = 30;
    p.edge_space = rng.chance(1, 2);
    p.odd_hrefs = rng.chance(1, 3);
    p.empty_lists = rng.chance(1, 3);
    if rng.chance(1, 4) {
        p.uni_space_permille = 150;
    }
    // adjacent words of wide characters (CJK has its own line-break conventions; here a
    // collapsible run is a space whatever it contains)
    if rng.chance(1, 4) {
        p.wide_permille = 700;
    }
    let mut doc = gen_doc(&mut rng, &p);
    if rng.chance(1, 5) {
        // words made of wide characters only, so that a collapsible run sits between two
        // wide characters
        let n = rng.range(2, 8);
        let mut kids = Vec::new();
        for i in 0..n {
            if i > 0 {
                kids.push(ast::Node::Space);
            }
            let len = rng.range(1, 3);
            let w: String = (0..len).map(|_| *rng.pick(&crate::textutil::WIDE)).collect();
            kids.push(ast::Node::Word(w));
        }
        let at = rng.below(doc.len() + 1);
        doc.insert(at, ast::El::with(*rng.pick(&["p", "div", "blockquote"]), kids).node());
        out.inc("docs_with_wide_only_words");
    }
    if rng.chance(1, 4) {
        // a prefixed block holding a few very short words (its minimum width is decided
        // by the words, not by min_wrap_width)
        let n = rng.range(2, 4);
        let mut kids = Vec::new();
        for i in 0..n {
            if i > 0 {
                kids.push(ast::Node::Space);
            }
            let len = rng.range(1, 2);
            let w: String = (0..len).map(|_| (b'a' + rng.below(26) as u8) as char).collect();
            kids.push(ast::Node::Word(w));
        }
        let el = match rng.below(4) {
            0 => ast::El::with("blockquote", kids),
            1 => ast::El::with("ul", vec![ast::El::with("li", kids).node()]),
            2 => ast::El::with("h3", kids),
            _ => ast::El::with("ol", vec![ast::El::with("li", kids).node()]),
        };
        let at = rng.below(doc.len() + 1);
        doc.insert(at, el.node());
        out.inc("docs_with_short_word_blocks");
    }
    if ast::has_tag(&doc, "s") || ast::has_tag(&doc, "del") {
        out.inc("docs_with_strikeout");
    }
    let base = ser_canonical(&doc);
    // which rewrite
    let kind = rng.below(6);
    let mut fmt = Fmt::canonical();
    fmt.rng = Some(rng.fork());
    let kind_name = match kind {
        0 => {
            fmt.vary_space = true;
            "space"
        }
        1 => {
            fmt.comments = true;
            "comments"
        }
        2 => {
            fmt.span_wrap = true;
            fmt.span_edges = fmt.chance_pub(1, 2);
            "span"
        }
        3 => {
            fmt.block_gaps = true;
            "block_gaps"
        }
        4 => {
            fmt.tag_style = true;
            "tag_style"
        }
        _ => {
            fmt = Fmt::varied(rng.fork());
            fmt.span_edges = fmt.chance_pub(1, 2);
            "all"
        }
    };
    // the same rewrite without white space between the tags of empty block containers
    // (used to attribute a difference, see `report`)
    let variant_no_empty_gaps = {
        let mut f2 = fmt.clone();
        f2.no_gap_in_empty = true;
        ast::serialize(&doc, &mut f2)
    };
    let variant = ast::serialize(&doc, &mut fmt);
    if variant == base {
        out.inc("identical_sources");
        return;
    }
    ALT_VARIANT.with(|v| *v.borrow_mut() = if variant_no_empty_gaps != variant { Some(variant_no_empty_gaps.clone()) } else { None });
    out.inc(&format!("rewrite:{}", kind_name));
    if kind == 5 {
        for k in ["space", "comments", "span", "block_gaps"] {
            out.inc(&format!("rewrite:{}", k));
        }
    }
    let mut plain_cfg = if rng.chance(1, 2) { Cfg::plain() } else { Cfg::trivial() };
    let mut rich_cfg = Cfg::rich();
    // structural selectors count element children only: white space and comments between
    // the tags must not shift them (not with span wrapping, which adds elements)
    if kind != 2 && kind != 5 && rng.chance(1, 4) {
        // (colour and generated content only: hiding whole blocks changes which tags are
        // block neighbours, which is C18's subject)
        let rules = [
            "li:nth-child(odd) { color: #aa0000 }",
            "li:nth-child(2) { color: #ff0000 }",
            "p:nth-child(even) em { color: #00ff00 }",
            "em:nth-child(1)::before { content: \"+\" }",
            "li:last-child { color: #00aa00 }",
            "li:last-child::after { content: \"$\" }",
            "p:first-child { color: #0000ff }",
            "dd:nth-child(2n) { color: #0000aa }",
            "blockquote > p:nth-child(1)::before { content: \"%\" }",
            "span:nth-child(-n+2)::after { content: \"~\" }",
            "div:nth-child(3n+1) { color: #123456 }",
        ];
        let mut css = String::new();
        for _ in 0..rng.range(1, 3) {
            css.push_str(*rng.pick(&rules));
            css.push('\n');
        }
        plain_cfg.css.push((Origin::User, css.clone()));
        rich_cfg.css.push((Origin::User, css));
        out.inc("pairs_with_structural_css");
    }
    for _ in 0..3 {
        let w = pick_width(&mut rng, 100);
        // plain: strings
        let a = render_string(&plain_cfg, &base, w);
        let b = render_string(&plain_cfg, &variant, w);
        out.evals += 2;
        out.inc("pairs_compared");
        if a.is_total() && b.is_total() && a != b {
            report(out, kind_name, &doc, &base, &variant, w, &plain_cfg, &a.kind_or_text(), &b.kind_or_text());
            return;
        }
        if let Outcome::Ok(s) = &a {
            if !s.trim().is_empty() {
                out.observe(crate::rng::hash_bytes(&variant) ^ crate::rng::hash_str(s));
                if out.sample.is_none() {
                    out.sample = Some(json!({"canonical": String::from_utf8_lossy(&base),
                        "rewritten": String::from_utf8_lossy(&variant), "rewrite": kind_name,
                        "width": w, "output": crate::textutil::truncate(s, 300)}));
                }
            }
        }
        // rich: tagged lines
        // (text and annotations; on which side of a line break the zero-width marker of
        // a text-less id'd element lands is not text - marker placement is C14's subject)
        // (pieces that were only separated by a marker are merged again)
        let no_frags = |ls: Vec<Line>| -> Vec<Line> { no_frags(ls) };
        let _unused = |ls: Vec<Line>| -> Vec<Line> {
            ls.into_iter()
                .map(|l| {
                    let mut out: Vec<Piece> = Vec::new();
                    for p in l.into_iter().filter(|p| !matches!(p, Piece::Frag(_))) {
                        if let (Some(Piece::Str { s: ps, tags: pt }), Piece::Str { s, tags }) = (out.last_mut(), &p) {
                            if pt == tags {
                                ps.push_str(s);
                                continue;
                            }
                        }
                        out.push(p);
                    }
                    out
                })
                .collect()
        };
        let a = render_lines(&rich_cfg, &base, w).map(no_frags);
        let b = render_lines(&rich_cfg, &variant, w).map(no_frags);
        out.evals += 2;
        out.inc("pairs_compared");
        if a.is_total() && b.is_total() && a != b {
            let sa = a.clone().map(|l| format!("{:?}", l)).kind_or_text();
            let sb = b.clone().map(|l| format!("{:?}", l)).kind_or_text();
            report(out, kind_name, &doc, &base, &variant, w, &rich_cfg, &sa, &sb);
            return;
        }
    }
}

fn no_frags(ls: Vec<Line>) -> Vec<Line> {
    ls.into_iter()
        .map(|l| {
            let mut out: Vec<Piece> = Vec::new();
            for p in l.into_iter().filter(|p| !matches!(p, Piece::Frag(_))) {
                if let (Some(Piece::Str { s: ps, tags: pt }), Piece::Str { s, tags }) = (out.last_mut(), &p) {
                    if pt == tags {
                        ps.push_str(s);
                        continue;
                    }
                }
                out.push(p);
            }
            out
        })
        .collect()
}

trait KindOrText {
    fn kind_or_text(&self) -> String;
}
impl KindOrText for Outcome<String> {
    fn kind_or_text(&self) -> String {
        match self {
            Outcome::Ok(s) => s.clone(),
            o => o.kind(),
        }
    }
}

#[allow(clippy::too_many_arguments)]
thread_local! {
    /// (the variant without gaps in empty containers, if it differs from the variant)
    static ALT_VARIANT: std::cell::RefCell<Option<Vec<u8>>> = const { std::cell::RefCell::new(None) };
}

fn report(
    out: &mut CaseOut,
    kind: &str,
    doc: &[ast::Node],
    base: &[u8],
    variant: &[u8],
    w: usize,
    cfg: &Cfg,
    a: &str,
    b: &str,
) {
    // classify: does the difference involve struck-out text?
    let strike = (ast::has_tag(doc, "s") || ast::has_tag(doc, "del"))
        && (a.contains('\u{336}') || b.contains('\u{336}'));
    let too_narrow = (a == "TooNarrow") != (b == "TooNarrow");
    let sup_digits = {
        let s = String::from_utf8_lossy(base);
        s.contains("<sup>") && (a.chars().any(|c| "⁰¹²³⁴⁵⁶⁷⁸⁹".contains(c)) != b.chars().any(|c| "⁰¹²³⁴⁵⁶⁷⁸⁹".contains(c)))
    };
    // Is the difference due to white space written between the tags of an EMPTY block
    // container (<div id=x> </div>, <ol>\n</ol>)?  Then the same rewrite without those
    // gaps renders like the canonical source.
    let empty_container = ALT_VARIANT.with(|v| {
        v.borrow().as_ref().map(|alt| {
            if cfg.deco == Deco::Rich {
                let x = render_lines(cfg, alt, w).map(|l| format!("{:?}", no_frags(l)));
                let y = render_lines(cfg, base, w).map(|l| format!("{:?}", no_frags(l)));
                x == y
            } else {
                render_string(cfg, alt, w) == render_string(cfg, base, w)
            }
        })
    }).unwrap_or(false);
    if empty_container {
        out.violate(
            "ws-dependent:white-space-next-to-block-without-content",
            format!("rewrite '{}' changes the rendering at width {} only through white space inside or next to a block element that has nothing to render", kind, w),
            json!({"canonical": String::from_utf8_lossy(base), "rewritten": String::from_utf8_lossy(variant),
                   "width": w, "config": cfg.describe(), "output_canonical": a, "output_rewritten": b}),
        );
        return;
    }
    // rewrites that split text nodes or add elements (the recorded findings need one)
    let splits = matches!(kind, "comments" | "span" | "all" | "probe");
    let sig = if too_narrow && splits {
        // size estimates are per text node: splitting a text node can change
        // whether a prefixed block is considered too narrow
        "ws-dependent:too-narrow-differs".to_string()
    } else if too_narrow {
        format!("ws-dependent:too-narrow-differs:{}", kind)
    } else if sup_digits && splits {
        "ws-dependent:digit-superscript-through-span".to_string()
    } else if strike {
        "ws-dependent:inside-strikeout".to_string()
    } else {
        format!("ws-dependent:{}", kind)
    };
    out.violate(
        sig,
        format!("rewrite '{}' of the source changes the rendering at width {}", kind, w),
        json!({"canonical": String::from_utf8_lossy(base), "rewritten": String::from_utf8_lossy(variant),
               "width": w, "config": cfg.describe(), "output_canonical": a, "output_rewritten": b}),
    );
}
