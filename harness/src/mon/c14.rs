//! C14 — every id with visible content yields one fragment marker at its content.

use super::common::*;
use crate::ast;
use crate::exec::*;
use crate::gen::Profile;
use crate::odom::{self, Kind, ODom};
use crate::rng::Rng;
use crate::run::{CaseOut, Monitor, Plan, Tier};
use crate::textutil::*;
use serde_json::json;
use std::collections::HashMap;

pub static MONITOR: Monitor = Monitor {
    id: "C14",
    title: "Every id with visible content yields one fragment marker at its content",
    rule: "Grammar documents with unique ids on random elements (p, div, span, em, strong, code, a[name], a[href], li, ul, ol, blockquote, h1-6, pre, td, th, tr, table, dl/dt/dd, img) and words concentrated around the width so that first words are hard-wrapped; widths 1..=100; lines from config::rich() and config::plain(). The output is linearised into a stream of token characters and FragmentStart markers. Oracle: (1) the multiset of marker names restricted to ids of elements with visible text equals the set of those ids (each exactly once); (2) for table-free documents and raw mode, the number of token characters before a marker equals the index of its element's first visible character in the oracle DOM's visible stream (after everything that precedes the element, not later than its first character); (3) markers with no text between them (in documents with side-by-side tables: directly adjacent on a line, i.e. within one cell) come in the document order of their elements, including the markers of text-less id'd elements; (4) string output is identical with all id/name attributes removed from the source. Hand-written regression inputs run as the first cases. Distinct/non-trivial = distinct (document,width) outputs with at least 2 markers.",
    assumptions: &[
        "with side-by-side tables only presence/uniqueness of markers is judged (cells interleave), positions are judged in raw mode and table-free documents",
        "markers of elements without visible text are allowed but not required",
    ],
    plan,
    run_case,
    thresholds,
    hang_is_violation: false,
    budget: None,
};

fn plan(tier: Tier) -> Plan {
    match tier {
        Tier::Quick => Plan {
            cases: 150_000,
            time_cap_s: 40,
            case_timeout_s: 20,
            exhaustive: false,
        },
        Tier::Thorough => Plan {
            cases: 2_500_000,
            time_cap_s: 420,
            case_timeout_s: 20,
            exhaustive: false,
        },
    }
}

fn thresholds(_t: Tier) -> Vec<(&'static str, u64)> {
    vec![
        ("cases", 1000),
        ("markers_expected", 10_000),
        ("marker_positions_checked", 5000),
        ("adjacent_marker_pairs_checked", 500),
        ("strip_id_comparisons", 2000),
        ("hook:hard_wraps", 1000),
        ("docs_with_tables", 500),
        ("distinct", 1000),
    ]
}

pub struct IdInfo {
    pub name: String,
    pub tag: String,
    pub node: odom::Id,
    /// number of token characters before the element's first visible character
    pub first: usize,
}

/// Elements carrying an id (or a[name]) that contain visible token text.
pub fn ids_with_text(dom: &ODom) -> Vec<IdInfo> {
    // For every node, the number of token characters that precede its first visible
    // character (any visible character counts as content: an element holding only
    // digits, e.g. <sup id=n>2</sup>, has visible content too).
    let all: Vec<odom::VChar> = odom::visible_stream(dom, &|_| false);
    let mut first_of_node: HashMap<odom::Id, usize> = HashMap::new();
    let mut t_before = 0usize;
    for v in all.iter() {
        first_of_node.entry(v.node).or_insert(t_before);
        if in_t(v.c) {
            t_before += 1;
        }
    }
    let mut out = Vec::new();
    for (id, n) in dom.nodes.iter().enumerate() {
        if let Kind::Element {
            name,
            html: true,
            attrs,
            ..
        } = &n.kind
        {
            if !dom.attached(id) {
                continue;
            }
            // the first id attribute (or name on <a>) in attribute order
            let frag = attrs
                .iter()
                .find(|(k, _)| k == "id" || (name == "a" && k == "name"))
                .map(|(_, v)| v.clone());
            let Some(frag) = frag else { continue };
            // first visible char in subtree
            let mut best: Option<usize> = None;
            let mut stack = vec![id];
            let mut hidden = false;
            for a in dom.ancestors(id) {
                if let Some(nm) = dom.html_name(a) {
                    if odom::is_hidden_container(nm) {
                        hidden = true;
                    }
                }
            }
            if hidden || odom::is_hidden_container(name) {
                continue;
            }
            while let Some(x) = stack.pop() {
                if let Some(&f) = first_of_node.get(&x) {
                    best = Some(best.map_or(f, |b: usize| b.min(f)));
                }
                if let Kind::Element { name, html, .. } = dom.kind(x) {
                    if *html && odom::is_hidden_container(name) {
                        continue;
                    }
                }
                for &c in dom.children(x) {
                    stack.push(c);
                }
            }
            if let Some(first) = best {
                out.push(IdInfo {
                    name: frag,
                    tag: name.clone(),
                    node: id,
                    first,
                });
            }
        }
    }
    out
}

pub fn cell_has_text(dom: &ODom, c: odom::Id) -> bool {
    let mut st = vec![c];
    while let Some(y) = st.pop() {
        if let Kind::Text(t) = dom.kind(y) {
            if t.chars().any(odom::is_visible_char) {
                return true;
            }
        }
        for &k in dom.children(y) {
            st.push(k);
        }
    }
    false
}

/// Is `id` a table / row group / row whose first cell has no visible text?
fn table_part_with_empty_first_cell(dom: &ODom, id: odom::Id) -> bool {
    let name = dom.html_name(id).unwrap_or("");
    if !matches!(name, "table" | "tbody" | "thead" | "tfoot" | "tr") {
        return false;
    }
    // find first td/th in document order below id
    let mut stack = vec![id];
    while let Some(x) = stack.pop() {
        if let Some(n) = dom.html_name(x) {
            if n == "tr" {
                // the first row decides: the marker is parked in its first cell, and a
                // row without any cell has none
                let has_cell = dom
                    .children(x)
                    .iter()
                    .any(|&c| matches!(dom.html_name(c), Some("td") | Some("th")));
                if !has_cell {
                    return true;
                }
            }
            if n == "td" || n == "th" {
                // a spanning first cell over columns that hold no text of their own can be
                // given width 0 (the unsized-column defect recorded under C03/C05/C06) and
                // is then skipped like an empty one
                if dom.attr(x, "colspan").and_then(|v| v.trim().parse::<usize>().ok()).unwrap_or(1) >= 2
                    && super::c03::spanned_columns_have_no_own_text(dom, x)
                {
                    return true;
                }
                // visible text?
                let mut s2 = vec![x];
                while let Some(y) = s2.pop() {
                    if let Kind::Text(t) = dom.kind(y) {
                        if t.chars().any(odom::is_visible_char) {
                            return false;
                        }
                    }
                    if dom.html_name(y) == Some("img") && dom.attr(y, "src").map(|s| !s.is_empty()).unwrap_or(false)
                        && dom.attr(y, "alt").map(|s| !s.is_empty()).unwrap_or(false) {
                        return false;
                    }
                    for &c in dom.children(y) {
                        s2.push(c);
                    }
                }
                return true;
            }
        }
        for &c in dom.children(x).iter().rev() {
            stack.push(c);
        }
    }
    false
}

pub fn check_markers(
    out: &mut CaseOut,
    dom: &ODom,
    ids: &[IdInfo],
    lines: &[Line],
    sequential: bool,
    input: &[u8],
    w: usize,
    cfg: &Cfg,
) -> bool {
    // linearise
    let mut chars_before: HashMap<String, Vec<usize>> = HashMap::new();
    let mut nchars = 0usize;
    for l in lines {
        for p in l {
            match p {
                Piece::Str { s, .. } => nchars += s.chars().filter(|c| in_t(*c)).count(),
                Piece::Frag(n) => chars_before.entry(n.clone()).or_default().push(nchars),
            }
        }
    }
    // document order of every element that carries a marker name (with or without text)
    let mut doc_pos: HashMap<String, Option<usize>> = HashMap::new();
    {
        let mut k = 0usize;
        let mut stack = vec![0usize];
        while let Some(x) = stack.pop() {
            if let Kind::Element { name, html: true, attrs, .. } = dom.kind(x) {
                if let Some((_, v)) = attrs.iter().find(|(a, _)| a == "id" || (name == "a" && a == "name")) {
                    k += 1;
                    // a name used twice has no single position
                    doc_pos.entry(v.clone()).and_modify(|e| *e = None).or_insert(Some(k));
                }
            }
            for &c in dom.children(x).iter().rev() {
                stack.push(c);
            }
        }
    }
    // markers with no text between them (inside one table cell: no piece at all between
    // them on the line) must come in document order
    {
        let mut prev: Option<(usize, String, usize)> = None; // (doc position, name, chars before)
        let mut nch = 0usize;
        for l in lines {
            if !sequential {
                prev = None;
            }
            for p in l {
                match p {
                    Piece::Str { s, .. } => {
                        nch += s.chars().filter(|c| in_t(*c)).count();
                        if !sequential {
                            prev = None;
                        }
                    }
                    Piece::Frag(n) => {
                        if let Some(Some(pos)) = doc_pos.get(n) {
                            if let Some((ppos, pname, pch)) = &prev {
                                if *pch == nch {
                                    out.inc("adjacent_marker_pairs_checked");
                                    if ppos > pos {
                                        out.violate(
                                            "marker-order",
                                            format!(
                                                "FragmentStart({:?}) comes before FragmentStart({:?}) with no text between them, but their elements are in the opposite order in the document",
                                                pname, n
                                            ),
                                            witness(input, w, cfg, json!({"lines": lines.iter().take(16).map(|l| format!("{:?}", l)).collect::<Vec<_>>()})),
                                        );
                                        return false;
                                    }
                                }
                            }
                            prev = Some((*pos, n.clone(), nch));
                        } else {
                            prev = None;
                        }
                    }
                }
            }
        }
    }
    for info in ids {
        out.inc("markers_expected");
        let got = chars_before.get(&info.name).cloned().unwrap_or_default();
        // several elements may share an id value only in mutated documents; ids are unique here
        if got.is_empty() {
            // Is the element itself not rendered because of the known text-loss
            // defect (spanning cell over columns without text of their own)?
            // Then there is nothing to attach a marker to; C03/C06 report that.
            let mut chain = vec![info.node];
            chain.extend(dom.ancestors(info.node));
            // for a row / table: look at its cells
            let mut cells: Vec<odom::Id> = chain
                .iter()
                .cloned()
                .filter(|x| matches!(dom.html_name(*x), Some("td") | Some("th")))
                .collect();
            if cells.is_empty() {
                let mut st = vec![info.node];
                while let Some(x) = st.pop() {
                    if matches!(dom.html_name(x), Some("td") | Some("th")) {
                        cells.push(x);
                        continue;
                    }
                    for &c in dom.children(x) {
                        st.push(c);
                    }
                }
            }
            let span = |c: odom::Id| dom.attr(c, "colspan").and_then(|v| v.trim().parse::<usize>().ok()).unwrap_or(1);
            if !cells.is_empty()
                && cells
                    .iter()
                    .filter(|c| crate::mon::c14::cell_has_text(dom, **c))
                    .all(|c| span(*c) >= 2 && super::c03::spanned_columns_have_no_own_text(dom, *c))
            {
                out.inc("element_not_rendered(see C03 known finding)");
                continue;
            }
            // In documents with side-by-side tables: is any of the element's text
            // in the output at all?  If its text was not rendered (C03's subject)
            // or is too short to tell, there is nothing to judge here.
            if !sequential {
                let mut toks: Vec<String> = Vec::new();
                let mut st = vec![info.node];
                while let Some(x) = st.pop() {
                    if let Kind::Text(t) = dom.kind(x) {
                        for w in t.split(|c: char| !in_t(c)) {
                            if w.chars().count() >= 4 {
                                toks.push(w.chars().take(4).collect());
                            }
                        }
                    }
                    for &c in dom.children(x) {
                        st.push(c);
                    }
                }
                let text: String = lines.iter().map(line_text).collect::<Vec<_>>().join("\n");
                if toks.is_empty() || !toks.iter().any(|t| text.contains(t.as_str())) {
                    out.inc("element_text_not_found_in_table_output");
                    continue;
                }
            }
            let class = if table_part_with_empty_first_cell(dom, info.node) {
                "table-part-with-empty-first-cell".to_string()
            } else {
                info.tag.clone()
            };
            out.violate(
                format!("marker-missing:{}", class),
                format!("element <{} id={:?}> has visible text but no FragmentStart({:?}) appears in the lines", info.tag, info.name, info.name),
                witness(input, w, cfg, json!({"lines": lines.iter().take(12).map(|l| format!("{:?}", l)).collect::<Vec<_>>()})),
            );
            return false;
        }
        if got.len() > 1 {
            out.violate(
                format!("marker-duplicated:{}", info.tag),
                format!("FragmentStart({:?}) appears {} times", info.name, got.len()),
                witness(input, w, cfg, json!({})),
            );
            return false;
        }
        if sequential {
            out.inc("marker_positions_checked");
            if got[0] != info.first {
                let class = if got[0] > info.first { "late" } else { "early" };
                out.violate(
                    format!("marker-position:{}:{}", class, info.tag),
                    format!(
                        "FragmentStart({:?}) of <{}> comes after {} token characters, but its element's first visible character is number {} ({})",
                        info.name, info.tag, got[0], info.first, class
                    ),
                    witness(input, w, cfg, json!({"lines": lines.iter().take(16).map(|l| format!("{:?}", l)).collect::<Vec<_>>()})),
                );
                return false;
            }
        }
    }
    true
}

pub const PROBES: [(&str, usize); 8] = [
    ("<p id=x>hhhhhhhh b</p>", 5),
    ("<p>aa <span id=s>hhhhhhhhhhhh</span> b</p>", 5),
    ("<table id=t><tr><td></td><td>Celltext</td></tr></table>", 20),
    ("<table><tr id=r><td></td><td>Celltext</td></tr></table>", 20),
    ("<table id=t><tr><td>Cellone</td><td>Celltwo</td></tr></table>", 20),
    ("<ul><li id=a>Itemone</li><li id=b>Itemtwo</li></ul>", 10),
    ("<p>Before</p><a name=anchor>Anchored</a>", 10),
    ("<blockquote id=q><p>Quoted text here</p></blockquote>", 8),
];

fn judge(out: &mut CaseOut, input: &[u8], stripped: Option<&[u8]>, cfg: &Cfg, w: usize) -> bool {
    let dom = odom::parse(input);
    let ids = ids_with_text(&dom);
    let t = render_lines_traced(cfg, input, w);
    out.evals += 1;
    count_events(out, &t.events);
    let lines = match &t.out {
        Outcome::Ok(l) => l,
        _ => return true,
    };
    let has_table = dom.has_element("table");
    if has_table {
        out.inc("docs_with_tables");
    }
    let sequential = !has_table || cfg.raw;
    if ids.len() >= 2 {
        out.observe(crate::rng::hash_str(&format!("{:?}", lines)));
    }
    if out.sample.is_none() && !ids.is_empty() {
        out.sample = Some(json!({"input": show_bytes(input, 300), "width": w, "config": cfg.describe(),
            "lines": lines.iter().take(5).map(|l| format!("{:?}", l)).collect::<Vec<_>>()}));
    }
    if !check_markers(out, &dom, &ids, lines, sequential, input, w, cfg) {
        return false;
    }
    if let Some(st) = stripped {
        let a = render_string(cfg, input, w);
        let b = render_string(cfg, st, w);
        out.evals += 2;
        out.inc("strip_id_comparisons");
        if a.is_total() && b.is_total() && a != b {
            out.violate(
                "ids-change-text",
                "removing id/name attributes from the source changes the string output".to_string(),
                witness(input, w, cfg, json!({"with_ids": a.ok().cloned().unwrap_or_default(), "without_ids": b.ok().cloned().unwrap_or_default()})),
            );
            return false;
        }
    }
    true
}

fn run_case(seed: u64, idx: u64, _tier: Tier, out: &mut CaseOut) {
    if (idx as usize) < PROBES.len() {
        let (src, w) = PROBES[idx as usize];
        out.inc("probes");
        for cfg in [Cfg::rich(), Cfg::plain()] {
            if !judge(out, src.as_bytes(), None, &cfg, w) {
                return;
            }
        }
        return;
    }
    let mut rng = Rng::for_case(seed, "C14", idx);
    let mut p = Profile::full();
    p.id_permille = *rng.pick(&[80usize, 200, 400]);
    p.a_name = true;
    if rng.chance(2, 3) {
        p = p.no_tables();
    }
    let w = pick_width(&mut rng, 100);
    if rng.chance(1, 2) {
        p.boundary = Some(w.min(30));
    }
    p.long_permille = 100;
    let mut doc = gen_doc(&mut rng, &p);
    // digit-only superscripts (drawn with superscript glyphs on a path of their own)
    // that carry an id: visible content, so a marker is due
    if rng.chance(1, 3) {
        let mut added = 0;
        ast::for_each_el_mut(&mut doc, &mut |e| {
            if added < 3 && matches!(e.tag.as_str(), "p" | "li" | "div" | "td" | "em" | "blockquote") && rng.chance(1, 4) {
                let at = rng.below(e.children.len() + 1);
                let sup = ast::El::with("sup", vec![ast::Node::Word(format!("{}", rng.range(0, 999)))])
                    .attr("id", &format!("s{}", added));
                e.children.insert(at, sup.node());
                added += 1;
            }
        });
        out.count("digit_superscripts_with_id", added);
    }
    let input = if rng.chance(1, 2) {
        ser_canonical(&doc)
    } else {
        ser_varied(&doc, &mut rng)
    };
    // the same document without ids / names, same formatting
    let mut d2 = doc.clone();
    ast::strip_attr(&mut d2, "id");
    ast::strip_attr(&mut d2, "name");
    let stripped = ser_canonical(&d2);
    let input_canon = ser_canonical(&doc);
    let mut cfg = if rng.chance(2, 3) { Cfg::rich() } else { Cfg::plain() };
    if rng.chance(1, 6) {
        cfg.raw = true;
    }
    if rng.chance(1, 6) {
        cfg.overflow = true;
    }
    for (k, &width) in [w, pick_width(&mut rng, 100)].iter().enumerate() {
        // marker checks on the (possibly varied) source; text comparison on canonical sources
        if !judge(out, &input, None, &cfg, width) {
            return;
        }
        if k == 0 && !judge(out, &input_canon, Some(&stripped), &cfg, width) {
            return;
        }
    }
}

pub fn judge_doc(out: &mut CaseOut, input: &[u8], cfg: &Cfg, w: usize) {
    judge(out, input, None, cfg, w);
}
