//! CSS generators: selector / sheet AST from the supported grammar, syntactic
//! variants of one sheet, token soup, truncations.

use crate::rng::Rng;

#[derive(Clone, Debug, PartialEq, Eq)]
pub enum Simple {
    Tag(String),
    Class(String),
    Id(String),
    Star,
    /// :nth-child(an+b); `text` is the argument as written
    Nth { a: i32, b: i32, text: String },
    /// ::before (false) / ::after (true), only as the last part of the last compound
    PseudoEl(bool),
}

#[derive(Clone, Debug, PartialEq, Eq)]
pub struct Compound(pub Vec<Simple>);

#[derive(Clone, Copy, Debug, PartialEq, Eq)]
pub enum Comb {
    Desc,
    Child,
}

/// compound (comb compound)*
#[derive(Clone, Debug, PartialEq, Eq)]
pub struct Selector {
    pub first: Compound,
    pub rest: Vec<(Comb, Compound)>,
}

impl Selector {
    pub fn simple(c: Compound) -> Selector {
        Selector {
            first: c,
            rest: Vec::new(),
        }
    }
    /// (ids, classes+pseudo-classes, types)
    pub fn specificity(&self) -> (u32, u32, u32) {
        let mut s = (0, 0, 0);
        let mut add = |c: &Compound| {
            for x in &c.0 {
                match x {
                    Simple::Id(_) => s.0 += 1,
                    Simple::Class(_) | Simple::Nth { .. } => s.1 += 1,
                    Simple::Tag(_) => s.2 += 1,
                    Simple::Star | Simple::PseudoEl(_) => {}
                }
            }
        };
        add(&self.first);
        for (_, c) in &self.rest {
            add(c);
        }
        s
    }
    pub fn compounds(&self) -> Vec<&Compound> {
        let mut v = vec![&self.first];
        for (_, c) in &self.rest {
            v.push(c);
        }
        v
    }
}

#[derive(Clone, Copy, Debug, PartialEq, Eq, Hash)]
pub struct Rgb(pub u8, pub u8, pub u8);

pub const NAMED: [(&str, Rgb); 17] = [
    ("aqua", Rgb(0, 0xff, 0xff)),
    ("black", Rgb(0, 0, 0)),
    ("blue", Rgb(0, 0, 0xff)),
    ("fuchsia", Rgb(0xff, 0, 0xff)),
    ("gray", Rgb(0x80, 0x80, 0x80)),
    ("green", Rgb(0, 0x80, 0)),
    ("lime", Rgb(0, 0xff, 0)),
    ("maroon", Rgb(0x80, 0, 0)),
    ("navy", Rgb(0, 0, 0x80)),
    ("olive", Rgb(0x80, 0x80, 0)),
    ("orange", Rgb(0xff, 0xa5, 0)),
    ("purple", Rgb(0x80, 0, 0x80)),
    ("red", Rgb(0xff, 0, 0)),
    ("silver", Rgb(0xc0, 0xc0, 0xc0)),
    ("teal", Rgb(0, 0x80, 0x80)),
    ("white", Rgb(0xff, 0xff, 0xff)),
    ("yellow", Rgb(0xff, 0xff, 0)),
];

#[derive(Clone, Copy, Debug, PartialEq, Eq)]
pub enum ColorForm {
    Named,
    Hex3,
    Hex6,
    Func,
}

#[derive(Clone, Debug, PartialEq, Eq)]
pub enum DeclKind {
    Color(Rgb, ColorForm),
    BgColor(Rgb, ColorForm),
    /// `background: <colour>`
    Background(Rgb, ColorForm),
    DisplayNone,
    /// display with a value other than none
    DisplayOther(String),
    /// height:0; overflow:hidden pair is expressed as two decls
    HeightZero,
    OverflowHidden,
    Unknown(String, String),
    /// content: "text" (for ::before / ::after rules)
    Content(String),
    /// white-space: value
    WhiteSpace(String),
    /// a supported property with the value as written (height, max-height, overflow, overflow-y)
    Raw(String, String),
}

#[derive(Clone, Debug, PartialEq, Eq)]
pub struct Decl {
    pub kind: DeclKind,
    pub important: bool,
}

#[derive(Clone, Debug, PartialEq, Eq)]
pub struct Rule {
    pub selectors: Vec<Selector>,
    pub decls: Vec<Decl>,
}

#[derive(Clone, Debug, PartialEq, Eq, Default)]
pub struct Sheet(pub Vec<Rule>);

/// How to write a sheet down.
#[derive(Clone, Debug)]
pub struct CssStyle {
    pub rng: Option<Rng>,
    pub minify: bool,
    pub pretty: bool,
    pub comments: bool,
    pub upper_props: bool,
    pub upper_hex: bool,
    /// 0 = keep final ';', 1 = drop it, 2 = double it
    pub final_semi: u8,
    pub unknown_props: bool,
    pub junk_rules: bool,
    /// unparsable rule sets (unsupported selector syntax) between the rules
    pub junk_rulesets: bool,
}

impl CssStyle {
    /// `name: value;` with friendly spacing and a final semicolon
    pub fn canonical() -> CssStyle {
        CssStyle {
            rng: None,
            minify: false,
            pretty: false,
            comments: false,
            upper_props: false,
            upper_hex: false,
            final_semi: 0,
            unknown_props: false,
            junk_rules: false,
            junk_rulesets: false,
        }
    }
    pub fn random(rng: &mut Rng) -> CssStyle {
        let mut r = rng.fork();
        let minify = r.chance(1, 3);
        CssStyle {
            minify,
            pretty: !minify && r.chance(1, 2),
            comments: r.chance(1, 3),
            upper_props: r.chance(1, 4),
            upper_hex: r.chance(1, 3),
            final_semi: r.below(3) as u8,
            unknown_props: r.chance(1, 3),
            junk_rules: r.chance(1, 3),
            junk_rulesets: r.chance(1, 3),
            rng: Some(r),
        }
    }
    fn chance(&mut self, n: usize, d: usize) -> bool {
        match &mut self.rng {
            Some(r) => r.chance(n, d),
            None => false,
        }
    }
    fn below(&mut self, n: usize) -> usize {
        match &mut self.rng {
            Some(r) => r.below(n),
            None => 0,
        }
    }
    /// optional whitespace / comment between two tokens
    fn gap(&mut self, out: &mut String, default_space: bool) {
        if self.comments && self.chance(1, 4) {
            let k = self.below(COMMENTS.len());
            out.push_str(COMMENTS[k]);
        }
        if self.minify {
            return;
        }
        if self.pretty && self.chance(1, 3) {
            out.push_str("\n  ");
        } else if default_space || self.chance(1, 4) {
            out.push(' ');
        }
    }
}

fn fmt_colour(c: Rgb, form: ColorForm, st: &mut CssStyle) -> String {
    match form {
        ColorForm::Named => NAMED
            .iter()
            .find(|(_, v)| *v == c)
            .map(|(n, _)| n.to_string())
            .unwrap_or_else(|| format!("#{:02x}{:02x}{:02x}", c.0, c.1, c.2)),
        ColorForm::Hex3 if c.0 % 17 == 0 && c.1 % 17 == 0 && c.2 % 17 == 0 => {
            let s = format!("#{:x}{:x}{:x}", c.0 / 17, c.1 / 17, c.2 / 17);
            if st.upper_hex {
                s.to_ascii_uppercase()
            } else {
                s
            }
        }
        ColorForm::Func => {
            if st.minify {
                format!("rgb({},{},{})", c.0, c.1, c.2)
            } else {
                format!("rgb({}, {}, {})", c.0, c.1, c.2)
            }
        }
        _ => {
            let s = format!("#{:02x}{:02x}{:02x}", c.0, c.1, c.2);
            if st.upper_hex {
                s.to_ascii_uppercase()
            } else {
                s
            }
        }
    }
}

/// Write a name as a CSS identifier: characters that cannot stand for themselves in an
/// identifier are escaped with a backslash, a leading digit as a hexadecimal escape.
pub fn css_escape_ident(name: &str) -> String {
    let mut s = String::new();
    for (i, ch) in name.chars().enumerate() {
        if i == 0 && ch.is_ascii_digit() {
            s.push_str(&format!("\\{:x} ", ch as u32));
        } else if ch.is_ascii_alphanumeric() || ch == '-' || ch == '_' || !ch.is_ascii() {
            s.push(ch);
        } else {
            s.push('\\');
            s.push(ch);
        }
    }
    s
}

pub fn fmt_compound(c: &Compound) -> String {
    let mut s = String::new();
    for x in &c.0 {
        match x {
            Simple::Tag(t) => s.push_str(t),
            Simple::Class(c) => {
                s.push('.');
                s.push_str(&css_escape_ident(c))
            }
            Simple::Id(i) => {
                s.push('#');
                s.push_str(&css_escape_ident(i))
            }
            Simple::Star => s.push('*'),
            Simple::PseudoEl(after) => s.push_str(if *after { "::after" } else { "::before" }),
            Simple::Nth { text, .. } => {
                s.push_str(":nth-child(");
                s.push_str(text);
                s.push(')');
            }
        }
    }
    s
}

pub fn fmt_selector(sel: &Selector, st: &mut CssStyle) -> String {
    let mut s = fmt_compound(&sel.first);
    for (comb, c) in &sel.rest {
        match comb {
            Comb::Desc => {
                // at least one whitespace character; a comment with white space on both
                // sides is still just a descendant combinator
                if st.comments && st.chance(1, 4) {
                    let k = st.below(COMMENTS.len());
                    s.push(' ');
                    s.push_str(COMMENTS[k]);
                    s.push(' ');
                } else if !st.minify && st.chance(1, 4) {
                    s.push_str("  ");
                } else if !st.minify && st.chance(1, 6) {
                    s.push_str("\n");
                } else {
                    s.push(' ');
                }
            }
            Comb::Child => {
                if st.minify {
                    s.push('>');
                } else {
                    match st.below(3) {
                        0 => s.push_str(" > "),
                        1 => s.push('>'),
                        _ => s.push_str(" >"),
                    }
                }
            }
        }
        s.push_str(&fmt_compound(c));
    }
    // a comment with white space around it after the selector (before '{' or ',')
    if st.comments && st.chance(1, 6) {
        let k = st.below(COMMENTS.len());
        s.push(' ');
        s.push_str(COMMENTS[k]);
        s.push(' ');
    }
    s
}

fn prop_name(name: &str, st: &mut CssStyle) -> String {
    if st.upper_props {
        match st.below(2) {
            0 => name.to_ascii_uppercase(),
            _ => {
                let mut s = String::new();
                for (i, c) in name.chars().enumerate() {
                    if i % 2 == 0 {
                        s.push(c.to_ascii_uppercase())
                    } else {
                        s.push(c)
                    }
                }
                s
            }
        }
    } else {
        name.to_string()
    }
}

fn fmt_decl(d: &Decl, st: &mut CssStyle) -> String {
    let (name, value) = match &d.kind {
        DeclKind::Color(c, f) => ("color".to_string(), fmt_colour(*c, *f, st)),
        DeclKind::BgColor(c, f) => ("background-color".to_string(), fmt_colour(*c, *f, st)),
        DeclKind::Background(c, f) => ("background".to_string(), fmt_colour(*c, *f, st)),
        DeclKind::DisplayNone => ("display".to_string(), "none".to_string()),
        DeclKind::DisplayOther(v) => ("display".to_string(), v.clone()),
        DeclKind::HeightZero => ("height".to_string(), "0".to_string()),
        DeclKind::OverflowHidden => ("overflow".to_string(), "hidden".to_string()),
        DeclKind::Unknown(n, v) => (n.clone(), v.clone()),
        DeclKind::Content(t) => ("content".to_string(), format!("\"{}\"", t)),
        DeclKind::WhiteSpace(v) => ("white-space".to_string(), v.clone()),
        DeclKind::Raw(n, v) => (n.clone(), v.clone()),
    };
    let mut s = prop_name(&name, st);
    st.gap(&mut s, false);
    s.push(':');
    st.gap(&mut s, true);
    s.push_str(&value);
    if d.important {
        st.gap(&mut s, true);
        s.push_str("!important");
    }
    s
}

/// Comment forms: runs of stars, and bodies holding characters that mean something
/// outside a comment (statement and block delimiters, quotes, an at-sign).
const COMMENTS: [&str; 14] = [
    "/* c */",
    "/**/",
    "/***/",
    "/* x **/",
    "/** doc */",
    "/*****/",
    "/* a*b / c */",
    "/* fallback; x */",
    "/* } */",
    "/* a { b } c */",
    "/* it's */",
    "/* say \"q */",
    "/* @media */",
    "/* ;;} \" ' */",
];

/// Unknown properties as value tokens (a gap - possibly a comment - may sit between any two).
const UNKNOWN_PROP_TOKENS: [(&str, &[&str]); 6] = [
    ("font-family", &["Georgia,", "serif"]),
    ("margin", &["0", "auto"]),
    ("border", &["1px", "solid", "#ccc"]),
    ("font", &["italic", "bold", "12px/30px", "Georgia,", "serif"]),
    ("transition", &["all", ".2s", "ease-in-out"]),
    ("padding", &["1em", "2em"]),
];

const UNKNOWN_PROPS: [(&str, &str); 11] = [
    ("margin", "0 auto"),
    ("font-family", "\"Helvetica Neue\", sans-serif"),
    ("border", "1px solid #ccc"),
    ("width", "calc(100% - 2px)"),
    ("-webkit-box-shadow", "0 0 2px rgba(0,0,0,.5)"),
    ("background-image", "url(\"a;b}c.png\")"),
    ("padding", "1em"),
    ("transition", "all .2s ease-in-out"),
    ("background-image", "url( \"photo(1).png\" )"),
    ("mask", "url( 'a)b;c}.svg' ) no-repeat"),
    ("cursor", "url(data:image/png;base64,iVBORw0KGgo=), auto"),
];

pub const JUNK_RULESETS: [&str; 11] = [
    "q:not(;) { color: red }",
    "q[title=a;b] { color: red }",
    "q(;;)[;] > r { display: none }",
    "a:hover { color: red; }",
    "div::first-line { color: blue }",
    "p[lang=en] { color: red; }",
    ".x + .y { color: red }",
    "li:not(.a) { display: none }",
    "h1 ~ p { color: #123 }",
    "input[type=\"text\"] { color: red }",
    "{ color: red }",
];

const JUNK_RULES: [&str; 13] = [
    "@import url(data:text/css;base64,LnggeyBjb2xvcjogcmVkIH0=);",
    "@supports (display: grid;) { div { display: grid } }",
    "@foo [a;b] (c;d);",
    "@media screen and (max-width: 600px) { .zz { color: red; } }",
    "@import url(\"foo.css\");",
    "@font-face { font-family: \"X\"; src: url(x.woff) }",
    "@charset \"utf-8\";",
    "@supports (display: grid) { div { display: grid } }",
    "@media print{*{color:#000!important}}",
    "@keyframes k { from { top: 0 } to { top: 1px } }",
    "@page :first { margin: 1in; }",
    "@import url( \"a)b.css\" );",
    "@font-face { src: url( 'x(1).woff' ) format(\"woff\"); }",
];

impl Sheet {
    pub fn to_css(&self, st: &mut CssStyle) -> String {
        let mut out = String::new();
        if st.comments && st.chance(1, 4) {
            let k = st.below(COMMENTS.len());
            out.push_str(COMMENTS[k]);
        }
        for rule in &self.0 {
            if st.junk_rulesets && st.chance(1, 3) {
                let i = st.below(JUNK_RULESETS.len());
                out.push_str(JUNK_RULESETS[i]);
                if !st.minify {
                    out.push('\n');
                }
            }
            if st.junk_rules && st.chance(1, 3) {
                let i = st.below(JUNK_RULES.len());
                out.push_str(JUNK_RULES[i]);
                st.gap(&mut out, false);
                if !st.minify {
                    out.push('\n');
                }
            }
            for (i, sel) in rule.selectors.iter().enumerate() {
                if i > 0 {
                    out.push(',');
                    if !st.minify {
                        out.push(' ');
                    }
                }
                out.push_str(&fmt_selector(sel, st));
            }
            st.gap(&mut out, true);
            out.push('{');
            st.gap(&mut out, true);
            let n = rule.decls.len();
            for (i, d) in rule.decls.iter().enumerate() {
                if st.unknown_props && st.chance(1, 4) {
                    // an unknown property whose value tokens are separated by gaps
                    let k = st.below(UNKNOWN_PROP_TOKENS.len());
                    let (n, toks) = UNKNOWN_PROP_TOKENS[k];
                    out.push_str(n);
                    out.push(':');
                    for (ti, t) in toks.iter().enumerate() {
                        if ti > 0 || !st.minify {
                            // tokens need a separator: a space, or a comment when minified
                            let before = out.len();
                            st.gap(&mut out, true);
                            if out.len() == before {
                                out.push(' ');
                            }
                        }
                        out.push_str(t);
                    }
                    out.push(';');
                    st.gap(&mut out, true);
                }
                if st.unknown_props && st.chance(1, 3) {
                    let k = st.below(UNKNOWN_PROPS.len());
                    let (n, v) = UNKNOWN_PROPS[k];
                    out.push_str(n);
                    out.push(':');
                    if !st.minify {
                        out.push(' ');
                    }
                    out.push_str(v);
                    out.push(';');
                    st.gap(&mut out, true);
                }
                out.push_str(&fmt_decl(d, st));
                if i + 1 < n {
                    out.push(';');
                    st.gap(&mut out, true);
                } else {
                    match st.final_semi {
                        0 => out.push(';'),
                        1 => {}
                        _ => out.push_str(";;"),
                    }
                    st.gap(&mut out, !st.minify && st.final_semi != 1);
                }
            }
            out.push('}');
            if !st.minify {
                out.push('\n');
            }
        }
        if st.junk_rulesets && st.chance(1, 4) {
            let i = st.below(JUNK_RULESETS.len());
            out.push_str(JUNK_RULESETS[i]);
        }
        if st.junk_rules && st.chance(1, 3) {
            let i = st.below(JUNK_RULES.len());
            out.push_str(JUNK_RULES[i]);
        }
        // the sheet may end in a comment (after a rule, an at-rule or a skipped rule set)
        if st.comments && st.chance(1, 2) {
            if !st.minify && st.chance(1, 2) {
                out.push(' ');
            }
            let k = st.below(COMMENTS.len());
            out.push_str(COMMENTS[k]);
            if st.chance(1, 3) {
                out.push('\n');
            }
        }
        out
    }
    pub fn canonical(&self) -> String {
        self.to_css(&mut CssStyle::canonical())
    }
}

/// Names available to selector generation.
#[derive(Clone, Debug)]
pub struct Vocab {
    pub tags: Vec<String>,
    pub classes: Vec<String>,
    pub ids: Vec<String>,
}

impl Vocab {
    pub fn default_doc() -> Vocab {
        Vocab {
            tags: ["p", "div", "span", "em", "li", "ul", "td", "strong", "blockquote", "a", "h2"]
                .iter()
                .map(|s| s.to_string())
                .collect(),
            classes: (0..4).map(|i| format!("c{}", i)).collect(),
            ids: (0..6).map(|i| format!("i{}", i)).collect(),
        }
    }
}

pub fn nth_text(rng: &mut Rng, a: i32, b: i32) -> String {
    // textual forms of an+b
    if a == 2 && b == 1 && rng.chance(1, 3) {
        return "odd".into();
    }
    if a == 2 && b == 0 && rng.chance(1, 3) {
        return "even".into();
    }
    if a == 0 {
        return format!("{}", b);
    }
    let a_txt = match a {
        1 => {
            if rng.chance(1, 2) {
                "n".to_string()
            } else {
                "1n".to_string()
            }
        }
        -1 => "-n".to_string(),
        a => format!("{}n", a),
    };
    if b == 0 && rng.chance(1, 2) {
        return a_txt;
    }
    let sp = if rng.chance(1, 3) { " " } else { "" };
    if b < 0 {
        format!("{}{}-{}", a_txt, sp, -b)
    } else {
        format!("{}{}+{}", a_txt, sp, b)
    }
}

pub fn gen_compound(rng: &mut Rng, v: &Vocab, allow_nth: bool) -> Compound {
    let mut parts = Vec::new();
    match rng.below(10) {
        0 | 1 | 2 => parts.push(Simple::Tag(rng.pick(&v.tags).clone())),
        3 | 4 => parts.push(Simple::Class(rng.pick(&v.classes).clone())),
        5 => parts.push(Simple::Id(rng.pick(&v.ids).clone())),
        6 => parts.push(Simple::Star),
        7 => {
            parts.push(Simple::Tag(rng.pick(&v.tags).clone()));
            parts.push(Simple::Class(rng.pick(&v.classes).clone()));
        }
        8 => {
            parts.push(Simple::Class(rng.pick(&v.classes).clone()));
            parts.push(Simple::Class(rng.pick(&v.classes).clone()));
        }
        _ => {
            parts.push(Simple::Tag(rng.pick(&v.tags).clone()));
            parts.push(Simple::Id(rng.pick(&v.ids).clone()));
        }
    }
    if allow_nth && rng.chance(1, 5) {
        let a = rng.range_i64(-3, 3) as i32;
        let b = rng.range_i64(-3, 5) as i32;
        let text = nth_text(rng, a, b);
        parts.push(Simple::Nth { a, b, text });
    }
    Compound(parts)
}

pub fn gen_selector(rng: &mut Rng, v: &Vocab, max_steps: usize) -> Selector {
    let steps = rng.range(1, max_steps.max(1));
    let first = gen_compound(rng, v, true);
    let mut rest = Vec::new();
    for _ in 1..steps {
        let comb = if rng.chance(1, 2) {
            Comb::Desc
        } else {
            Comb::Child
        };
        rest.push((comb, gen_compound(rng, v, true)));
    }
    Selector { first, rest }
}

pub fn gen_colour(rng: &mut Rng) -> (Rgb, ColorForm) {
    match rng.below(4) {
        0 => (NAMED[rng.below(NAMED.len())].1, ColorForm::Named),
        1 => (
            Rgb(
                17 * rng.below(16) as u8,
                17 * rng.below(16) as u8,
                17 * rng.below(16) as u8,
            ),
            ColorForm::Hex3,
        ),
        2 => (
            Rgb(rng.below(256) as u8, rng.below(256) as u8, rng.below(256) as u8),
            ColorForm::Hex6,
        ),
        _ => (
            Rgb(rng.below(256) as u8, rng.below(256) as u8, rng.below(256) as u8),
            ColorForm::Func,
        ),
    }
}

/// Rules that change the text: generated content on ::before / ::after, white-space,
/// and the height/overflow forms (zero lengths with units, non-hiding overflow values).
pub fn gen_text_rules(rng: &mut Rng, v: &Vocab, max_rules: usize) -> Vec<Rule> {
    let n = rng.range(1, max_rules.max(1));
    let mut rules = Vec::new();
    for _ in 0..n {
        let mut sel = gen_selector(rng, v, 2);
        let decls = match rng.below(4) {
            0 | 1 => {
                let after = rng.chance(1, 2);
                match sel.rest.last_mut() {
                    Some((_, c)) => c.0.push(Simple::PseudoEl(after)),
                    None => sel.first.0.push(Simple::PseudoEl(after)),
                }
                let text = *rng.pick(&["<<", ">>", "+", "(x)", "-> ", " :: ", "#", "q q", "/* */", "a;b", "{}", "it's"]);
                vec![Decl { kind: DeclKind::Content(text.to_string()), important: rng.chance(1, 6) }]
            }
            2 => vec![Decl {
                kind: DeclKind::WhiteSpace(rng.pick(&["pre", "normal", "pre-wrap", "nowrap", "pre-line"]).to_string()),
                important: rng.chance(1, 6),
            }],
            _ => {
                let h = *rng.pick(&["0", "0px", "0em", "0.0pt", "1px", "auto", "50%", "0in"]);
                let o = *rng.pick(&["hidden", "visible", "scroll", "auto"]);
                let hp = *rng.pick(&["height", "max-height"]);
                let op = *rng.pick(&["overflow", "overflow-y"]);
                let mut d = vec![
                    Decl { kind: DeclKind::Raw(hp.to_string(), h.to_string()), important: false },
                    Decl { kind: DeclKind::Raw(op.to_string(), o.to_string()), important: false },
                ];
                if rng.chance(1, 2) {
                    d.reverse();
                }
                d
            }
        };
        rules.push(Rule { selectors: vec![sel], decls });
    }
    rules
}

/// A valid sheet of colour rules (no display / content / white-space).
pub fn gen_colour_sheet(rng: &mut Rng, v: &Vocab, max_rules: usize) -> Sheet {
    let n = rng.range(1, max_rules.max(1));
    let mut rules = Vec::new();
    for _ in 0..n {
        let nsel = if rng.chance(1, 5) { 2 } else { 1 };
        let selectors = (0..nsel).map(|_| gen_selector(rng, v, 3)).collect();
        let nd = rng.range(1, 2);
        let mut decls = Vec::new();
        for _ in 0..nd {
            let (c, f) = gen_colour(rng);
            let kind = match rng.below(4) {
                0 | 1 => DeclKind::Color(c, f),
                2 => DeclKind::BgColor(c, f),
                _ => DeclKind::Background(c, f),
            };
            decls.push(Decl {
                kind,
                important: rng.chance(1, 6),
            });
        }
        rules.push(Rule { selectors, decls });
    }
    Sheet(rules)
}

const SOUP_TOKENS: [&str; 88] = [
    "#ab\\e9", "#abcd\\20ac 1", "\\e9", "#\\e9 b", "#ab\u{e9}", "#abcd\u{20ac}1", "\\123456789", "\\10ffff ", "#abcde\u{e9}f", "#a\u{1F600}",
    "url( \"a(1).png\" )", "url(a b)", "url( ", "background",
    "::before", "::after", "content", "\"x\"", "white-space", "pre", "height", "max-height", "0px", "overflow",
    "overflow-y", "hidden", "::", "pre-wrap",
    "p", "div", "color", "red", "display", "none", "#", "#abc", "#12", ".", ".c1", ":", ";", "{",
    "}", "(", ")", "[", "]", "\"", "'", "\"str\"", "'a", "\\", "\\41 ", "\\", "@", "@media",
    "@import", "@x", "0", "12345678901", "99999999999999999999", "1.5em", "50%", "-", "--", "-->",
    "<!--", "!", "!important", "/*", "*/", "/* c */", ":nth-child(", ":nth-child(2n+1)",
    ":nth-child(99999999999)", ":nth-child(-n+3)", "n", "+", ">", "*", ",", " ", "\n", "\t", "\0",
    "é", "url(", "rgb(",
];

pub fn soup(rng: &mut Rng) -> String {
    if rng.chance(1, 4) {
        // hostile tokens as the value of a supported property inside a well-formed rule
        let prop = *rng.pick(&["color", "background-color", "background", "display", "height", "white-space", "content", "overflow"]);
        let mut v = String::new();
        for _ in 0..rng.range(1, 3) {
            v.push_str(*rng.pick(&SOUP_TOKENS));
            if rng.chance(1, 2) {
                v.push(' ');
            }
        }
        let sel = *rng.pick(&["p", ".c1", "*", "#i0", "p::before", "li:nth-child(2)"]);
        return format!("{} {{ {}: {}{} }}", sel, prop, v, rng.pick(&[";", "", " !important;", ";;"]));
    }
    let n = rng.range(1, 30);
    let mut s = String::new();
    for _ in 0..n {
        s.push_str(*rng.pick(&SOUP_TOKENS));
        if rng.chance(1, 3) {
            s.push(' ');
        }
    }
    s
}

pub fn random_utf8(rng: &mut Rng) -> String {
    let n = rng.range(0, 60);
    let bytes: Vec<u8> = (0..n)
        .map(|_| {
            if rng.chance(1, 2) {
                *rng.pick(b"{}:;#.@()[]\"'\\/* \n!-+,>0123456789abcn")
            } else {
                rng.below(256) as u8
            }
        })
        .collect();
    String::from_utf8_lossy(&bytes).into_owned()
}

/// Truncation or single-token deletion of a valid sheet.
pub fn damaged_valid(rng: &mut Rng) -> String {
    let v = Vocab::default_doc();
    let sheet = gen_colour_sheet(rng, &v, 4);
    let mut st = CssStyle::random(rng);
    let css = sheet.to_css(&mut st);
    let chars: Vec<char> = css.chars().collect();
    if chars.is_empty() {
        return css;
    }
    if rng.chance(1, 2) {
        let cut = rng.below(chars.len());
        chars[..cut].iter().collect()
    } else {
        let at = rng.below(chars.len());
        let n = rng.range(1, 3).min(chars.len() - at);
        let mut c = chars.clone();
        c.drain(at..at + n);
        c.into_iter().collect()
    }
}

/// Any of the string generators (for totality checks).
pub fn soup_or_valid(rng: &mut Rng) -> String {
    match rng.below(5) {
        0 => random_utf8(rng),
        1 | 2 => soup(rng),
        3 => damaged_valid(rng),
        _ => {
            let v = Vocab::default_doc();
            let sheet = gen_colour_sheet(rng, &v, 4);
            let mut st = CssStyle::random(rng);
            sheet.to_css(&mut st)
        }
    }
}
