//! C05 — table borders form a consistent box drawing.
//! C06 — table cells stay in their columns, in order; columns with text get space.
//! Both monitors run the same table workload and grid oracle (mon/tables.rs)
//! and report the findings that belong to their property.

use super::common::*;
use super::tables::*;
use crate::ast::{self, Fmt};
#[allow(unused_imports)]
use crate::exec::Deco;
use crate::exec::*;
use crate::gen::Tokens;
use crate::rng::Rng;
use crate::run::{CaseOut, Monitor, Plan, Tier};
use crate::textutil::*;
use serde_json::json;

pub static MONITOR_C05: Monitor = Monitor {
    id: "C05",
    title: "Table borders form a consistent box drawing",
    rule: "Regular tables (1..5 rows x 1..6 columns, colspans tiling the grid, cells empty / 1-2 characters / multi-word / multi-line via <br> / wide characters, nested regular tables, thead/tbody), borders on, widths 1..=100; half of the random tables under the plain decorator at top level, the other half under a drawn configuration (plain / rich / trivial decorator x pad_block_width, max_wrap_width(2..24), min_wrap_width(1..8)), with <p> paragraphs inside cells and, for a third of them, inside <blockquote> / <ul><li> / both (the prefix column is stripped and the table judged at the narrower width); bounded-exhaustive part: every table up to 2x2 (quick) / 2x3 (thorough) over 3 content classes and all colspan tilings at every width 1..=30, under plain and one drawn configuration. The output is parsed into a character-cell grid (wide characters occupy two cells). Oracle, side by side (TableLayout hook says which layout; fallback: '/' rules): all lines equally wide and <= w, first and last line are rules, one rule more than rows with content, bars at identical x on every line of a row band, and at EVERY rule glyph of the output (nested tables included) glyph == f(bar directly above, bar directly below), every bar continued by a bar or joining glyph above and below. Stacked: every rule exactly as wide as the width given to the table, '─' rules at both ends and between rows, '/' rules between the cells of a row, no junction glyphs. Distinct/non-trivial = distinct table outputs with at least one junction glyph or a stacked rule skeleton of at least 3 rules.",
    assumptions: &[
        "the structural (band/bar) checks apply to tables without nested tables in which every column gets a non-zero size estimate; other tables get the local glyph/bar rules and equal line widths only",
    ],
    plan: plan,
    run_case: run_case_c05,
    thresholds: thresholds_c05,
    hang_is_violation: false,
    budget: None,
};

pub static MONITOR_C06: Monitor = Monitor {
    id: "C06",
    title: "Table cells stay in their columns, in order; columns with text get space",
    rule: "Same table workload as C05 with unique tokens per cell (plus deliberately tiny tokens, empty cells and colspans over otherwise empty columns). Oracle on the parsed grid of side-by-side tables: column boundaries recovered from the bars coincide in every row (respecting colspans) and with the TableLayout hook's allocated widths; sum of widths + separators <= width given to the table and == line width; no column holding text has width 0; for every cell the token characters found inside its rectangle (row band x spanned columns), read line by line, equal the cell's text - which gives containment, left-to-right / top-to-bottom order and presence of every non-empty cell at once. When the drawing itself is inconsistent (a C05 matter) the rectangles are taken from the hooked allocation instead of the bars, so misplaced text is still reported here. Stacked tables: token characters in source order. Distinct/non-trivial = distinct outputs of tables with at least two columns and two non-empty cells.",
    assumptions: &[
        "cell rectangles are checked for tables without nested tables in which every column gets a non-zero size estimate; a spanning cell narrower than its colspan over otherwise empty columns is the known finding shared with C03",
    ],
    plan: plan,
    run_case: run_case_c06,
    thresholds: thresholds_c06,
    hang_is_violation: false,
    budget: None,
};

fn ex_scope(tier: Tier) -> (usize, usize) {
    match tier {
        Tier::Quick => (2, 2),
        Tier::Thorough => (2, 3),
    }
}

fn plan(tier: Tier) -> Plan {
    let (r, c) = ex_scope(tier);
    match tier {
        Tier::Quick => Plan {
            cases: exhaustive_count(r, c) + 300_000,
            time_cap_s: 40,
            case_timeout_s: 20,
            exhaustive: false,
        },
        Tier::Thorough => Plan {
            cases: exhaustive_count(r, c) + 3_000_000,
            time_cap_s: 480,
            case_timeout_s: 20,
            exhaustive: false,
        },
    }
}

fn thresholds_c05(_t: Tier) -> Vec<(&'static str, u64)> {
    vec![
        ("cases", 1000),
        ("tables_exhaustive", 100),
        ("layout:side_by_side", 2000),
        ("layout:stacked", 500),
        ("structure_checked", 2000),
        ("junction_positions_checked", 100_000),
        ("glyph:cross", 500),
        ("tables_nested", 200),
        ("distinct", 1000),
    ]
}

fn thresholds_c06(_t: Tier) -> Vec<(&'static str, u64)> {
    vec![
        ("cases", 1000),
        ("tables_exhaustive", 100),
        ("cells_located", 10_000),
        ("layout:side_by_side", 2000),
        ("layout:stacked", 500),
        ("tables_with_colspan", 500),
        ("distinct", 1000),
    ]
}

const C05_SIGS: [&str; 15] = [
    "rule-without-rows",
    "junction-glyph",
    "bar-not-continued-above",
    "bar-not-continued-below",
    "ragged-lines",
    "table-wider-than-width",
    "no-top-rule",
    "no-bottom-rule",
    "row-band-count",
    "empty-row-band",
    "bars-move-within-row",
    "stacked-rule-width",
    "stacked-rule-has-junctions",
    "stacked-rule-skeleton",
    "stacked-stray-box-char",
];

fn run_case_c05(seed: u64, idx: u64, tier: Tier, out: &mut CaseOut) {
    run_tables(seed, idx, tier, out, true)
}
fn run_case_c06(seed: u64, idx: u64, tier: Tier, out: &mut CaseOut) {
    run_tables(seed, idx, tier, out, false)
}

fn run_tables(seed: u64, idx: u64, tier: Tier, out: &mut CaseOut, c05: bool) {
    // same tables for both monitors: the RNG is keyed on "C05" for both
    let mut rng = Rng::for_case(seed, "C05", idx);
    let mut tok = Tokens::new();
    let (mr, mc) = ex_scope(tier);
    let nex = exhaustive_count(mr, mc);
    let (table, widths): (TTable, Vec<usize>) = if idx < nex {
        out.inc("tables_exhaustive");
        (
            exhaustive_table(idx, mr, mc, &mut rng, &mut tok),
            (1..=30).collect(),
        )
    } else {
        let t = gen_table(&mut rng, &mut tok, 0, true);
        let ws = (0..4).map(|_| pick_width(&mut rng, 100)).collect();
        (t, ws)
    };
    if table.has_nested() {
        out.inc("tables_nested");
    }
    if table.rows.iter().flatten().any(|c| c.span > 1) {
        out.inc("tables_with_colspan");
    }
    // Configuration and context are drawn from a separate stream so that the
    // tables themselves do not depend on them.
    let mut crng = Rng::for_case(seed, "C05cfg", idx);
    let mut table = table;
    let variant = |r: &mut Rng| -> Cfg {
        let mut c = match r.below(8) {
            0 => Cfg::rich(),
            1 => Cfg::trivial(),
            _ => Cfg::plain(),
        };
        match r.below(6) {
            0 | 1 => c.pad = true,
            2 => c.max_wrap = Some(r.range(2, 24)),
            3 => {
                c.pad = true;
                c.max_wrap = Some(r.range(2, 24));
            }
            4 => c.min_wrap = Some(r.range(1, 8)),
            _ => {}
        }
        c
    };
    let (cfgs, ctx): (Vec<Cfg>, usize) = if idx < nex {
        (vec![Cfg::plain(), variant(&mut crng)], 0)
    } else if crng.chance(1, 2) {
        (vec![Cfg::plain()], 0)
    } else {
        // paragraphs inside cells (blank lines inside a row band)
        if crng.chance(1, 2) {
            for c in table.rows.iter_mut().flatten() {
                if c.words.len() > 1 && c.nested.is_none() && crng.chance(1, 2) {
                    c.paras = true;
                }
            }
        }
        // cells that hold white space only (top-level table only)
        if crng.chance(1, 6) {
            for c in table.rows.iter_mut().flatten() {
                if c.words.is_empty() && c.nested.is_none() && c.trail_br == 0 && crng.chance(1, 2) {
                    c.blank = true;
                }
            }
        }
        // ids on the table, its first row and first cells; nested tables get them too
        if crng.chance(1, 3) {
            fn set_ids(t: &mut TTable) {
                t.ids = true;
                for c in t.rows.iter_mut().flatten() {
                    if let Some(n) = c.nested.as_mut() {
                        set_ids(n);
                    }
                }
            }
            set_ids(&mut table);
            out.inc("tables_with_ids");
            if crng.chance(1, 2) {
                table.empty_first_rows = true;
            }
        }
        // listings: a cell's words inside <pre> with a final line break
        if crng.chance(1, 8) {
            for c in table.rows.iter_mut().flatten() {
                if !c.words.is_empty() && c.nested.is_none() && c.br_after.is_empty() && !c.paras && crng.chance(1, 2) {
                    c.pre = true;
                }
            }
        }
        let ctx = if crng.chance(1, 3) { crng.range(1, 4) } else { 0 };
        (vec![variant(&mut crng)], ctx)
    };
    // context: 0 = top level, 1 = inside <blockquote>, 2 = inside <ul><li>, 3 = both
    let tnode = table.to_node();
    let (doc, pw): (Vec<ast::Node>, usize) = match ctx {
        1 => (vec![ast::El::with("blockquote", vec![tnode]).node()], 2),
        2 => (vec![ast::El::with("ul", vec![ast::El::with("li", vec![tnode]).node()]).node()], 2),
        3 => (
            vec![ast::El::with(
                "blockquote",
                vec![ast::El::with("ul", vec![ast::El::with("li", vec![tnode]).node()]).node()],
            )
            .node()],
            4,
        ),
        4 => (vec![ast::El::with("div", vec![tnode]).attr("id", "wrap").node()], 0),
        _ => (vec![tnode], 0),
    };
    if ctx > 0 {
        out.inc("tables_in_prefixed_block");
    }
    let input = ast::serialize(&doc, &mut Fmt::canonical());
    let sized = table.all_columns_sized();
    for (cfg, &w) in cfgs.iter().flat_map(|c| widths.iter().map(move |w| (c, w))) {
        if cfg.pad {
            out.inc("cfg:pad");
        }
        if cfg.max_wrap.is_some() {
            out.inc("cfg:max_wrap");
        }
        if cfg.min_wrap.is_some() {
            out.inc("cfg:min_wrap");
        }
        if !matches!(cfg.deco, Deco::Plain) {
            out.inc("cfg:other_decorator");
        }
        // a quarter of the renderings go through the three-step route and render a clone
        // of the tree (the drawing and the cell order must not depend on the route)
        let staged = idx >= nex && crng.chance(1, 4);
        let t = if staged {
            out.inc("route:clone_of_staged_tree");
            start_recording();
            let r = render_staged_noshow(cfg, &input, &[w]);
            let events = take_events();
            Traced {
                out: match r {
                    Outcome::Ok(mut v) => v.remove(0).0,
                    o => o.map(|_| String::new()),
                },
                events,
                ticks: 0,
            }
        } else {
            render_string_traced(cfg, &input, w)
        };
        out.evals += 1;
        let s_full = match &t.out {
            Outcome::Ok(s) => s,
            _ => {
                out.inc("not_ok");
                continue;
            }
        };
        // strip the prefix column of the enclosing block(s); the table then has w - pw
        let stripped: String;
        let s: &String = if pw == 0 {
            s_full
        } else {
            let mut acc = String::new();
            let mut ok = true;
            for (li, l) in s_full.lines().enumerate() {
                let exp: &str = match (ctx, li) {
                    (1, _) => "> ",
                    (2, 0) => "* ",
                    (2, _) => "  ",
                    (3, 0) => "> * ",
                    (3, _) => ">   ",
                    _ => "",
                };
                match l.strip_prefix(exp) {
                    Some(r) => {
                        acc.push_str(r);
                        acc.push('\n');
                    }
                    None => {
                        ok = false;
                        break;
                    }
                }
            }
            if !ok {
                // prefixes are C07's subject; not judged here
                out.inc("prefix_not_parsed");
                continue;
            }
            stripped = acc;
            &stripped
        };
        let w_full = w;
        let w = w.saturating_sub(pw);
        let grid = to_grid(s);
        let lay = outer_layout(&t.events, &grid, w);
        // The structural oracle needs every effective column to be present.
        // With the hook the allocation itself says so; a zero width for a
        // column that holds text of its own (in a non-spanning cell) is a C06
        // violation, a zero width for a column covered only by a spanning
        // cell or by nothing makes the table "unsized" (known allocation quirk).
        let mut zero_with_own_text = None;
        let structured = if lay.from_hook && !lay.vertical {
            let own = table.columns_with_own_text();
            if lay.col_widths.len() == own.len() {
                for (j, &cwid) in lay.col_widths.iter().enumerate() {
                    if cwid == 0 && own[j] {
                        zero_with_own_text = Some(j);
                    }
                }
            }
            !table.has_nested() && lay.col_widths.iter().all(|&x| x > 0)
        } else {
            !table.has_nested() && sized
        };
        out.inc(if lay.vertical { "layout:stacked" } else { "layout:side_by_side" });
        if out.sample.is_none() && grid.len() > 2 {
            out.sample = Some(sample(&input, w_full, cfg, s_full));
        }
        let mut findings: Vec<Finding> = Vec::new();
        // a table none of whose rows renders anything has nothing to frame
        // (side by side only: the stacked layout draws its rule skeleton for every row)
        if !lay.vertical && !table.has_nested() && table.visible_rows().is_empty() && grid.iter().any(|r| r.iter().any(|c| is_box(*c) || *c == '/')) {
            let blank = table.rows.iter().flatten().any(|c| c.blank);
            findings.push(Finding {
                sig: if blank { "rule-without-rows:blank-cells".into() } else { "rule-without-rows".into() },
                what: format!("no row of the table has any content, but {} line(s) of rules are drawn", grid.len()),
            });
        }
        if let Some(j) = zero_with_own_text {
            findings.push(Finding {
                sig: "text-column-zero-width".into(),
                what: format!("column {} holds text in a cell of its own but was allocated width 0 (allocation {:?})", j, lay.col_widths),
            });
        }
        // local rules always (C05)
        let mut st = LocalStats::default();
        if let Some(f) = check_local_rules(&grid, &mut st) {
            findings.push(f);
        }
        if c05 {
            out.count("junction_positions_checked", st.junctions);
            out.count("bars_checked", st.bars);
            out.count("glyph:cross", st.cross);
            out.count("glyph:tee_down", st.tee_down);
            out.count("glyph:tee_up", st.tee_up);
        }
        if lay.vertical && lay.from_hook && lay.avail == 0 {
            // a table that is given no width at all (prefix as wide as the line) draws nothing
            out.inc("table_given_zero_width");
        } else if lay.vertical {
            if !table.has_nested() {
                out.inc("structure_checked");
                if let Some(f) = check_stacked(&table, &grid, &lay, cfg) {
                    findings.push(f);
                }
            }
        } else if structured {
            out.inc("structure_checked");
            match check_side_by_side(&table, &grid, &lay, w) {
                Some(f) => {
                    // C06 does not depend on the drawing being intact: when the bars are
                    // inconsistent the cell rectangles are taken from the hooked allocation
                    if !c05 && C05_SIGS.contains(&f.sig.split(':').next().unwrap_or("")) {
                        let mut n = 0;
                        if let Some(f2) = check_cells_by_allocation(&table, &grid, &lay, &mut n) {
                            findings.push(f2);
                        }
                        out.count("cells_located_by_allocation", n);
                    }
                    findings.push(f)
                }
                None => {
                    let mut n = 0;
                    if let Some(f) = check_cells(&table, &grid, &mut n) {
                        findings.push(f);
                    }
                    if !c05 {
                        out.count("cells_located", n);
                    }
                }
            }
        } else {
            out.inc("unstructured_tables");
            // equal line widths still required for tables in which all columns are sized
            if !table.has_nested() {
                // Tables with zero-width columns.  The known defect: a spanning cell
                // that covers zero-width columns is laid out with colspan-1 extra
                // separator columns (ragged lines), and a spanning cell whose columns
                // ALL have zero width is skipped (its text is missing).  With the
                // hooked allocation both effects are predictable, so anything else
                // that goes wrong in such a table is still reported as new.
                let width0 = grid.first().map(|r| r.len()).unwrap_or(0);
                let ragged = grid.iter().any(|r| r.len() != width0);
                let b = table.boundaries();
                let mut expected_text = String::new();
                let mut known_skipped_span = false;
                let mut allowed_widths: Vec<usize> = Vec::new();
                let hook_ok = lay.from_hook && lay.col_widths.len() + 1 == b.len();
                if hook_ok {
                    let cwid = &lay.col_widths;
                    allowed_widths.push(
                        cwid.iter().sum::<usize>() + cwid.iter().filter(|&&x| x > 0).count().saturating_sub(1),
                    );
                    for row in &table.rows {
                        let mut c = 0;
                        let mut roww = 0usize;
                        let mut ncells = 0usize;
                        for cell in row {
                            let a0 = b.iter().position(|&x| x == c).unwrap();
                            let e0 = b.iter().position(|&x| x == c + cell.span).unwrap();
                            let sum: usize = cwid[a0..e0].iter().sum();
                            if sum > 0 {
                                expected_text.push_str(&cell.text());
                                roww += sum + (e0 - a0) - 1;
                                ncells += 1;
                            } else if !cell.is_empty() && e0 - a0 >= 2 {
                                known_skipped_span = true;
                            }
                            c += cell.span;
                        }
                        if ncells > 0 {
                            allowed_widths.push(roww + ncells - 1);
                        }
                    }
                }
                if ragged {
                    // text lines must have one of the predicted row widths; rules are
                    // stretched to the junctions of the rows next to them
                    let maxw = allowed_widths.iter().copied().max().unwrap_or(0);
                    let explained = hook_ok
                        && grid.iter().all(|r| {
                            if is_rule_line(r) {
                                r.len() <= maxw
                            } else {
                                allowed_widths.contains(&r.len())
                            }
                        });
                    findings.push(Finding {
                        sig: if explained || !hook_ok {
                            "ragged-lines:unsized-column".into()
                        } else {
                            "ragged-lines".into()
                        },
                        what: format!(
                            "lines of the table differ in width (allocation {:?}; line widths {:?})",
                            lay.col_widths,
                            {
                                let mut ws: Vec<usize> = grid.iter().map(|r| r.len()).collect();
                                ws.sort_unstable();
                                ws.dedup();
                                ws
                            }
                        ),
                    });
                }
                // text (C06): every cell that was given width must be there
                let mut a: Vec<char> = grid.iter().flatten().filter(|c| in_t(**c)).cloned().collect();
                a.sort_unstable();
                let mut all: Vec<char> = table.all_text().chars().filter(|c| in_t(*c) && cw(*c) > 0).collect();
                all.sort_unstable();
                if a != all {
                    let mut exp: Vec<char> = expected_text.chars().filter(|c| in_t(*c) && cw(*c) > 0).collect();
                    exp.sort_unstable();
                    let explained = !hook_ok || (known_skipped_span && a == exp);
                    findings.push(Finding {
                        sig: if explained {
                            "cell-text-missing:unsized-column".into()
                        } else {
                            "cell-text-missing".into()
                        },
                        what: format!(
                            "text of the table's cells is missing from or added to the output (allocation {:?}); {}",
                            lay.col_widths,
                            if explained { "only spanning cells over zero-width columns are affected" } else { "cells that were given width are affected" }
                        ),
                    });
                }
            } else if !lay.vertical {
                let width0 = grid.first().map(|r| r.len()).unwrap_or(0);
                if grid.iter().any(|r| r.len() != width0) && sized && lay.col_widths.iter().all(|&x| x > 0) {
                    findings.push(Finding {
                        sig: "ragged-lines".into(),
                        what: "lines of a table with nested tables differ in width".into(),
                    });
                }
            }
        }
        // non-trivial observation
        if c05 {
            if st.tee_down + st.tee_up + st.cross > 0 || (lay.vertical && grid.iter().filter(|r| is_rule_line(r) || is_slash_line(r)).count() >= 3) {
                out.observe(crate::rng::hash_str(s));
            }
        } else if table.boundaries().len() > 2 && table.rows.iter().flatten().filter(|c| !c.is_empty()).count() >= 2 {
            out.observe(crate::rng::hash_str(s));
        }
        for f in findings {
            let base = f.sig.split(':').next().unwrap_or("");
            let mine = C05_SIGS.contains(&base) == c05;
            if mine {
                out.violate(
                    f.sig.clone(),
                    f.what.clone(),
                    witness(&input, w_full, cfg, json!({"output": s_full, "layout": if lay.vertical {"stacked"} else {"side-by-side"}, "col_widths": lay.col_widths})),
                );
                // (one report per rendering; the other widths / configurations of the case
                // are still judged, so that a frequent recorded finding does not hide them)
                break;
            }
        }
    }
}

#[allow(dead_code)]
fn unused(_: &str) -> usize {
    sw("")
}
