//! Small deterministic PRNG (splitmix64 seeding + xoshiro256**).  Every random
//! choice in the harness derives from (VERIF_SEED, property id, case index).

#[derive(Clone, Debug)]
pub struct Rng {
    s: [u64; 4],
}

fn splitmix(x: &mut u64) -> u64 {
    *x = x.wrapping_add(0x9E37_79B9_7F4A_7C15);
    let mut z = *x;
    z = (z ^ (z >> 30)).wrapping_mul(0xBF58_476D_1CE4_E5B9);
    z = (z ^ (z >> 27)).wrapping_mul(0x94D0_49BB_1331_11EB);
    z ^ (z >> 31)
}

pub fn hash_str(s: &str) -> u64 {
    hash_bytes(s.as_bytes())
}

pub fn hash_bytes(b: &[u8]) -> u64 {
    // FNV-1a 64, then a splitmix finaliser
    let mut h: u64 = 0xcbf2_9ce4_8422_2325;
    for &c in b {
        h ^= c as u64;
        h = h.wrapping_mul(0x0000_0100_0000_01B3);
    }
    let mut x = h;
    splitmix(&mut x)
}

pub fn mix(a: u64, b: u64) -> u64 {
    let mut x = a ^ b.rotate_left(32) ^ 0x5851_F42D_4C95_7F2D;
    let r = splitmix(&mut x);
    r ^ splitmix(&mut x)
}

impl Rng {
    pub fn new(seed: u64) -> Rng {
        let mut x = seed;
        Rng {
            s: [
                splitmix(&mut x),
                splitmix(&mut x),
                splitmix(&mut x),
                splitmix(&mut x),
            ],
        }
    }

    /// RNG for one case of one property.
    pub fn for_case(seed: u64, prop: &str, idx: u64) -> Rng {
        Rng::new(mix(mix(seed, hash_str(prop)), idx))
    }

    pub fn fork(&mut self) -> Rng {
        Rng::new(self.next())
    }

    pub fn next(&mut self) -> u64 {
        let s = &mut self.s;
        let result = s[1].wrapping_mul(5).rotate_left(7).wrapping_mul(9);
        let t = s[1] << 17;
        s[2] ^= s[0];
        s[3] ^= s[1];
        s[1] ^= s[2];
        s[0] ^= s[3];
        s[2] ^= t;
        s[3] = s[3].rotate_left(45);
        result
    }

    /// Uniform in 0..n (n > 0).
    pub fn below(&mut self, n: usize) -> usize {
        debug_assert!(n > 0);
        (self.next() % (n as u64)) as usize
    }

    /// Uniform in lo..=hi.
    pub fn range(&mut self, lo: usize, hi: usize) -> usize {
        debug_assert!(lo <= hi);
        lo + self.below(hi - lo + 1)
    }

    pub fn range_i64(&mut self, lo: i64, hi: i64) -> i64 {
        let span = (hi - lo + 1) as u64;
        lo + (self.next() % span) as i64
    }

    /// True with probability num/den.
    pub fn chance(&mut self, num: usize, den: usize) -> bool {
        self.below(den) < num
    }

    pub fn pick<'a, T>(&mut self, xs: &'a [T]) -> &'a T {
        &xs[self.below(xs.len())]
    }

    pub fn pick_weighted(&mut self, weights: &[usize]) -> usize {
        let tot: usize = weights.iter().sum();
        let mut r = self.below(tot.max(1));
        for (i, &w) in weights.iter().enumerate() {
            if r < w {
                return i;
            }
            r -= w;
        }
        weights.len() - 1
    }

    pub fn shuffle<T>(&mut self, xs: &mut [T]) {
        for i in (1..xs.len()).rev() {
            let j = self.below(i + 1);
            xs.swap(i, j);
        }
    }
}
